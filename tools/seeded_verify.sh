#!/bin/bash
# tools/seeded_verify.sh <seeded-dir> [--suite]
# Confirms a seeded change: (1) demo passes on the clean tree and fails with the patch (scratch worktree),
# (2) with --suite: the existing test suite still passes with the patch, (3) the registered quick check of
# meta.json's property reports a VIOLATION with the patch applied to /repo (undone straight afterwards)
# and its replay file reproduces. Prints one RESULT line.
set -u
dir="$(cd "$1" && pwd)"; suite="${2:-}"
prop=$(python3 -c "import json,sys; print(json.load(open('$dir/meta.json'))['property'])")
wt=/tmp/wt-verify
export CARGO_NET_OFFLINE=true
if [ ! -d "$wt" ]; then git -C /repo worktree add -q --detach "$wt" HEAD || exit 2; fi
git -C "$wt" checkout -q --detach "$(git -C /repo rev-parse HEAD)" 2>/dev/null
git -C "$wt" checkout -q -- . ; rm -f "$wt/tests/seeded_demo.rs"
cp "$dir/demo.rs" "$wt/tests/seeded_demo.rs"
( cd "$wt" && cargo test --offline --test seeded_demo >/tmp/sv-clean.log 2>&1 ); clean=$?
( cd "$wt" && git apply "$dir/patch.diff" ) || { echo "RESULT $dir patch does not apply"; exit 2; }
( cd "$wt" && cargo test --offline --test seeded_demo >/tmp/sv-patched.log 2>&1 ); patched=$?
suite_rc=skipped
if [ "$suite" = "--suite" ]; then
  rm -f "$wt/tests/seeded_demo.rs"
  ( cd "$wt" && cargo test --workspace --no-fail-fast --offline >/tmp/sv-suite.log 2>&1 ); suite_rc=$?
fi
git -C "$wt" checkout -q -- . ; rm -f "$wt/tests/seeded_demo.rs"
# the registered check against /repo itself
if ! git -C /repo diff --quiet; then echo "RESULT $dir /repo dirty, refusing"; exit 2; fi
git -C /repo apply "$dir/patch.diff" || { echo "RESULT $dir patch does not apply to /repo"; exit 2; }
out=$(cd /verif && ./bin/check "$prop" quick 2>&1); rc=$?
git -C /repo checkout -- .
replay=$(echo "$out" | sed -n 's/^VIOLATION property=[A-Z0-9]* replay=//p' | head -1)
vline=$(echo "$out" | grep -m1 "^violation in run")
rrc=-
if [ -n "$replay" ] && [ -f "$replay" ]; then
  # replay must reproduce with the patch and be silent without it
  git -C /repo apply "$dir/patch.diff"; (cd /verif && ./bin/check --replay "$replay" >/dev/null 2>&1); r1=$?
  git -C /repo checkout -- .;          (cd /verif && ./bin/check --replay "$replay" >/dev/null 2>&1); r2=$?
  rrc="$r1/$r2"
  mkdir -p "$dir"; cp "$replay" "$dir/replay.json"; rm -f "$replay"
fi
echo "RESULT $(basename "$dir") property=$prop demo_clean=$clean demo_patched=$patched suite=$suite_rc check_exit=$rc replay_patched/clean=$rrc :: $vline"
