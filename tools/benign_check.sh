#!/bin/bash
# tools/benign_check.sh — false-alarm experiment: every quick check against every property-PRESERVING change
# under /verif/benign (private copies /tmp/mb/{repo,sim}, like tools/seeded_matrix.sh). Expected: all HELD.
set -u
export CARGO_NET_OFFLINE=true
mx=/tmp/mb; props="C01 C03 C04 C09 C10 C20"
rm -rf $mx/sim $mx/replays $mx/evidence; mkdir -p $mx
[ -d $mx/repo ] || git -C /repo worktree add -q --detach $mx/repo HEAD || exit 2
git -C $mx/repo checkout -q --detach "$(git -C /repo rev-parse HEAD)"; git -C $mx/repo checkout -q -- .
rsync -a --exclude target /verif/sim/ $mx/sim/
sed -i "s|path = \"/repo/core\"|path = \"$mx/repo/core\"|; s|path = \"/repo\"|path = \"$mx/repo\"|" $mx/sim/Cargo.toml
cp /verif/known_findings.json $mx/
export EGSIM_VERIF_DIR=$mx
: > /verif/benign/RESULTS.txt
for d in $(ls -d /verif/benign/*/ | sort ${BENIGN_SORT:-}); do
  id=$(basename "$d"); [ -f "$d/patch.diff" ] || continue
  git -C $mx/repo apply "$d/patch.diff" || { echo "$id: cannot apply" | tee -a /verif/benign/RESULTS.txt; continue; }
  if ! (cd $mx/sim && cargo build --release --offline >/dev/null 2>&1); then echo "$id: build failed" | tee -a /verif/benign/RESULTS.txt; git -C $mx/repo checkout -q -- .; continue; fi
  row=""
  for p in $props; do
    o=$(cd $mx/sim && ./target/release/egsim check "$p" --tier quick --no-evidence 2>&1); rc=$?
    v=$(echo "$o" | grep -m1 "^violation in run" | cut -c1-260)
    row="$row $p=$rc"
    [ $rc -eq 0 ] || echo "   $id $p: $v" | tee -a /verif/benign/RESULTS.txt
  done
  git -C $mx/repo checkout -q -- .
  echo "$id:$row" | tee -a /verif/benign/RESULTS.txt
done
echo BENIGN-COMPLETE
