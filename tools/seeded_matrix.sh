#!/bin/bash
# tools/seeded_matrix.sh — informational: which quick checks fire for which seeded change.
# Works on PRIVATE copies (/tmp/mx/repo = git worktree of /repo's HEAD, /tmp/mx/sim = copy of /verif/sim with
# its path dependencies pointed there) so that /repo and /verif/sim stay usable meanwhile. egsim is
# deterministic, so the verdicts equal those of the registered checks run against /repo with the patch applied
# (which tools/seeded_verify.sh does for the change's own property). Writes seeded/MATRIX.json.
set -u
export CARGO_NET_OFFLINE=true
mx=/tmp/mx; props="C01 C03 C04 C09 C10 C20"
rm -rf $mx/sim $mx/replays $mx/evidence; mkdir -p $mx
[ -d $mx/repo ] || git -C /repo worktree add -q --detach $mx/repo HEAD || exit 2
git -C $mx/repo checkout -q --detach "$(git -C /repo rev-parse HEAD)"; git -C $mx/repo checkout -q -- .
rsync -a --exclude target /verif/sim/ $mx/sim/
sed -i "s|path = \"/repo/core\"|path = \"$mx/repo/core\"|; s|path = \"/repo\"|path = \"$mx/repo\"|" $mx/sim/Cargo.toml
cp /verif/known_findings.json $mx/
export EGSIM_VERIF_DIR=$mx
# ids already in MATRIX.json are kept as they are unless FORCE=1 (the file is merged at the end)
out=/verif/seeded/MATRIX.json.tmp; echo "{" > $out; first=1
for d in /verif/seeded/*/; do
  id=$(basename "$d"); [ -f "$d/patch.diff" ] || continue
  # ONLY="id1 id2 ..." restricts the run to those ids (and implies FORCE for them)
  if [ -n "${ONLY:-}" ]; then case " $ONLY " in *" $id "*) ;; *) continue;; esac; fi
  if [ -z "${ONLY:-}" ] && [ "${FORCE:-0}" != "1" ] && [ -f /verif/seeded/MATRIX.json ] && python3 -c "import json,sys; sys.exit(0 if '$id' in json.load(open('/verif/seeded/MATRIX.json')) else 1)"; then continue; fi
  git -C $mx/repo apply "$d/patch.diff" || { echo "cannot apply $id"; continue; }
  if ! (cd $mx/sim && cargo build --release --offline >/dev/null 2>&1); then echo "$id: build failed"; git -C $mx/repo checkout -q -- .; continue; fi
  row=""
  for p in $props; do
    o=$(cd $mx/sim && ./target/release/egsim check "$p" --tier quick --no-evidence 2>&1); rc=$?
    cls=$(echo "$o" | sed -n 's/^violation in run [0-9]*: \[\([a-z_]*\)\].*/\1/p' | head -1)
    run=$(echo "$o" | sed -n 's/^violation in run \([0-9]*\):.*/\1/p' | head -1)
    row="$row \"$p\": {\"exit\": $rc, \"class\": \"$cls\", \"first_failing_run\": ${run:-null}},"
  done
  git -C $mx/repo checkout -q -- .
  [ $first -eq 1 ] || echo "," >> $out; first=0
  echo " \"$id\": {${row%,} }" >> $out
  echo "$id: $row"
done
echo "}" >> $out
python3 - <<'PY'
import json, os
new = json.load(open('/verif/seeded/MATRIX.json.tmp'))
old = json.load(open('/verif/seeded/MATRIX.json')) if os.path.exists('/verif/seeded/MATRIX.json') else {}
old.update(new)
json.dump(dict(sorted(old.items())), open('/verif/seeded/MATRIX.json', 'w'), indent=1)
os.remove('/verif/seeded/MATRIX.json.tmp')
PY
echo MATRIX-COMPLETE
