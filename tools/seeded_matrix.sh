#!/bin/bash
# tools/seeded_matrix.sh  — runs every registered quick check against every seeded change (applied to /repo,
# undone straight afterwards) and writes seeded/MATRIX.json: which checks catch which changes.
set -u
cd /verif
export CARGO_NET_OFFLINE=true
props="C01 C03 C04 C09 C10 C20"
echo "{" > seeded/MATRIX.json.tmp
first=1
for d in seeded/*/; do
  id=$(basename "$d"); [ -f "$d/patch.diff" ] || continue
  if ! git -C /repo diff --quiet; then echo "/repo dirty"; exit 2; fi
  git -C /repo apply "/verif/$d/patch.diff" || { echo "cannot apply $id"; continue; }
  row=""
  for p in $props; do
    out=$(./bin/check "$p" quick 2>&1); rc=$?
    cls=$(echo "$out" | sed -n 's/^violation in run [0-9]*: \[\([a-z_]*\)\].*/\1/p' | head -1)
    rm -f replays/*.json
    row="$row \"$p\": {\"exit\": $rc, \"class\": \"$cls\"},"
  done
  git -C /repo checkout -- .
  [ $first -eq 1 ] || echo "," >> seeded/MATRIX.json.tmp
  first=0
  echo " \"$id\": {${row%,} }" >> seeded/MATRIX.json.tmp
  echo "$id done: $row"
done
echo "}" >> seeded/MATRIX.json.tmp
mv seeded/MATRIX.json.tmp seeded/MATRIX.json
# leave evidence files as produced by a clean run
for p in $props; do ./bin/check "$p" quick >/dev/null 2>&1; done
echo MATRIX-COMPLETE
