#!/bin/bash
# tools/seeded_replay_all.sh — cheap regression over /verif/seeded after a change to the simulator:
# every committed replay.json must be silent on the clean tree (exit 0) and reproduce with its patch
# (exit 1). Private copies /tmp/mr/{repo,sim}, so /repo and /verif/sim stay untouched.
# Prints one line per directory; directories whose replay no longer reproduces must be regenerated
# with tools/seeded_verify.sh.
set -u
export CARGO_NET_OFFLINE=true
mx=/tmp/mr
rm -rf $mx/sim $mx/replays $mx/evidence; mkdir -p $mx
[ -d $mx/repo ] || git -C /repo worktree add -q --detach $mx/repo HEAD || exit 2
git -C $mx/repo checkout -q --detach "$(git -C /repo rev-parse HEAD)"; git -C $mx/repo checkout -q -- .
rsync -a --exclude target /verif/sim/ $mx/sim/
sed -i "s|path = \"/repo/core\"|path = \"$mx/repo/core\"|; s|path = \"/repo\"|path = \"$mx/repo\"|" $mx/sim/Cargo.toml
cp /verif/known_findings.json $mx/
export EGSIM_VERIF_DIR=$mx
(cd $mx/sim && cargo build --release --offline >/dev/null 2>&1) || { echo "clean build failed"; exit 2; }
declare -A clean
for d in /verif/seeded/*/; do
  id=$(basename "$d"); [ -f "$d/replay.json" ] || continue
  if [ -n "${ONLY_RE:-}" ] && ! [[ "$id" =~ $ONLY_RE ]]; then continue; fi
  (cd $mx/sim && ./target/release/egsim replay "$d/replay.json" >/dev/null 2>&1); clean[$id]=$?
done
for d in /verif/seeded/*/; do
  id=$(basename "$d"); [ -f "$d/replay.json" ] || continue
  if [ -n "${ONLY_RE:-}" ] && ! [[ "$id" =~ $ONLY_RE ]]; then continue; fi
  git -C $mx/repo apply "$d/patch.diff" || { echo "$id: cannot apply"; continue; }
  if (cd $mx/sim && cargo build --release --offline >/dev/null 2>&1); then
    (cd $mx/sim && ./target/release/egsim replay "$d/replay.json" >/dev/null 2>&1); rc=$?
  else rc=build-failed; fi
  git -C $mx/repo checkout -q -- .
  st=OK; [ "$rc" = 1 ] && [ "${clean[$id]}" = 0 ] || st=STALE
  echo "$id: patched=$rc clean=${clean[$id]} $st"
done
echo REPLAY-ALL-COMPLETE
