#!/bin/bash
# tools/mutant.sh <property> <file-in-repo> <sed-expression> [runs]
# Applies a one-line mutation to /repo, runs the quick check (no evidence), reverts. For sensitivity testing only.
set -u
prop="$1"; file="$2"; expr="$3"; runs="${4:-}"
cd /repo || exit 2
if ! git diff --quiet; then echo "repo dirty, refusing"; exit 2; fi
sed -i -E "$expr" "$file"
if git diff --quiet; then echo "MUTATION DID NOT APPLY: $expr"; exit 3; fi
git diff | grep '^[-+]' | grep -v '^+++\|^---' | head -6
cd /verif/sim
if ! CARGO_NET_OFFLINE=true cargo build --release --offline >/tmp/mutant-build.log 2>&1; then
  echo "MUTANT DOES NOT COMPILE"; grep -E "^error" -A 6 /tmp/mutant-build.log | head -12
  cd /repo && git checkout -- .; exit 4
fi
if [ -n "$runs" ]; then ./target/release/egsim check "$prop" --no-evidence --runs "$runs" | grep -E "VIOLATION|violation in|HELD|harness"; else ./target/release/egsim check "$prop" --no-evidence | grep -E "VIOLATION|violation in|HELD|harness"; fi
rc=$?
cd /repo && git checkout -- . 
rm -f /verif/replays/*.json
exit 0
