#!/bin/bash
# tools/mutant.sh <property> <file-in-repo> <sed-expression> [runs]
# Applies a one-line mutation to /repo, runs the quick check (no evidence), reverts. For sensitivity testing only.
set -u
prop="$1"; file="$2"; expr="$3"; runs="${4:-}"
cd /repo || exit 2
if ! git diff --quiet; then echo "repo dirty, refusing"; exit 2; fi
sed -i -E "$expr" "$file"
if git diff --quiet; then echo "MUTATION DID NOT APPLY: $expr"; exit 3; fi
git diff | grep '^[-+]' | grep -v '^+++\|^---' | head -6
cd /verif/sim && CARGO_NET_OFFLINE=true cargo build --release --offline 2>&1 | grep -E "^error" -A 8 | head -20
if [ -n "$runs" ]; then ./target/release/egsim check "$prop" --no-evidence --runs "$runs" | grep -E "VIOLATION|violation in|HELD|harness"; else ./target/release/egsim check "$prop" --no-evidence | grep -E "VIOLATION|violation in|HELD|harness"; fi
rc=$?
cd /repo && git checkout -- . 
rm -f /verif/replays/*.json
exit 0
