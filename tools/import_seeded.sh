#!/bin/bash
# tools/import_seeded.sh <worktree> <property> <prefix>   copies <worktree>/_seeded/<i> to seeded/<prefix>-<i>
wt="$1"; prop="$2"; prefix="$3"
for d in "$wt"/_seeded/*/; do
  i=$(basename "$d"); t=/verif/seeded/$prefix-$i; mkdir -p "$t"
  cp "$d/patch.diff" "$d/demo.rs" "$t/"; [ -f "$d/notes.md" ] && cp "$d/notes.md" "$t/notes.md"
  python3 - "$t" "$prop" <<'PY'
import json,sys,os
t,prop=sys.argv[1],sys.argv[2]
notes=open(os.path.join(t,'notes.md')).read() if os.path.exists(os.path.join(t,'notes.md')) else ''
json.dump({"id":os.path.basename(t),"property":prop,"origin":"independent sub-agent given only the property text and a scratch worktree","what":"see notes.md","needs_to_manifest":"see notes.md","confirmed":{}}, open(os.path.join(t,'meta.json'),'w'), indent=1)
PY
done
ls /verif/seeded
