#!/usr/bin/env python3
"""Prints the markdown table of seeded changes (DESIGN.md section 8.3) from seeded/*/meta.json and MATRIX.json."""
import json, glob, os
mx = {}
if os.path.exists('/verif/seeded/MATRIX.json'):
    mx = json.load(open('/verif/seeded/MATRIX.json'))
print('| id | property | change | needs, in order to manifest | reported by its check as | other checks that fire |')
print('|---|---|---|---|---|---|')
for d in sorted(glob.glob('/verif/seeded/*/')):
    mf = d + 'meta.json'
    if not os.path.exists(mf):
        continue
    m = json.load(open(mf))
    i = m['id']; p = m['property']
    cls = (m.get('confirmed') or {}).get('violation_class') or ''
    row = mx.get(i, {})
    if row.get(p, {}).get('class'):
        cls = row[p]['class'] + ' (run %s)' % row[p].get('first_failing_run')
    others = ', '.join('%s:%s' % (k, v['class']) for k, v in sorted(row.items()) if k != p and v.get('exit') == 1) or ('—' if row else 'n/a')
    esc = lambda s: s.replace('|', '\\|')
    print('| `%s` | %s | %s | %s | `%s` | %s |' % (i, p, esc(m['what']), esc(m['needs_to_manifest']), cls, others))
