#!/usr/bin/env python3
"""tools/mutation_sweep.py [--limit N] [--seed S] [--props C03,C09,...]

Systematic sensitivity measurement: single-token mutants of the code each claimed property is anchored
in, on PRIVATE copies (/tmp/mu/repo = git worktree of /repo's HEAD, /tmp/mu/sim = copy of /verif/sim
pointed there), so /repo and /verif/sim stay usable. For every mutant that compiles:
  1. the quick check of the property the file belongs to is run (egsim is deterministic, so the verdict
     equals the registered check's against /repo with the mutant applied);
  2. if the check holds, the repository's own test suite is run to see whether the tests kill it.
Result lines go to /verif/mutation/RESULTS.jsonl; survivors (not killed by the check) are the ones to
read: each is either an equivalent mutant, a change that breaks a different property, or a blind spot.
"""
import json, os, random, re, subprocess, sys, time, shutil

MU = '/tmp/mu'
ENV = dict(os.environ, CARGO_NET_OFFLINE='true', EGSIM_VERIF_DIR=MU)

FILES = {
    'C03': ['src/draw_target/clipped.rs', 'src/draw_target/cropped.rs', 'src/draw_target/translated.rs',
            'src/draw_target/color_converted.rs', 'src/iterator/contiguous.rs', 'src/iterator/pixel.rs',
            'core/src/draw_target/mod.rs', 'core/src/primitives/rectangle/mod.rs',
            'core/src/primitives/rectangle/points.rs'],
    'C09': ['src/image/image_raw.rs', 'src/image/sub_image.rs', 'src/image/mod.rs', 'src/iterator/raw.rs',
            'core/src/pixelcolor/raw/load_store.rs'],
    'C10': ['src/framebuffer.rs', 'core/src/pixelcolor/raw/load_store.rs', 'core/src/pixelcolor/raw/to_bytes.rs'],
    'C20': ['src/mock_display/mod.rs', 'src/mock_display/color_mapping.rs'],
    # C01: only the bodies of `draw_styled` (the draw() renderer) and of the styled pixel iterators'
    # `next` (the pixels() renderer) — a change to one of the two separately written renderers must
    # show up as a difference between them; code shared by both is left alone (see LINE_FILTER)
    'C01': ['src/primitives/rectangle/styled.rs', 'src/primitives/circle/styled.rs',
            'src/primitives/ellipse/styled.rs', 'src/primitives/rounded_rectangle/styled.rs',
            'src/primitives/triangle/styled.rs', 'src/primitives/polyline/styled.rs',
            'src/primitives/line/styled.rs', 'src/primitives/arc/styled.rs', 'src/primitives/sector/styled.rs'],
    'C04': ['src/primitives/common/styled_scanline.rs', 'src/primitives/common/scanline.rs',
            'src/primitives/rectangle/styled.rs', 'src/primitives/circle/styled.rs',
            'src/primitives/ellipse/styled.rs', 'src/primitives/rounded_rectangle/styled.rs',
            'src/primitives/triangle/styled.rs', 'src/primitives/polyline/styled.rs',
            'src/primitives/line/styled.rs', 'src/primitives/arc/styled.rs', 'src/primitives/sector/styled.rs',
            'src/mono_font/mono_text_style.rs', 'src/mono_font/draw_target.rs', 'src/text/text.rs',
            'src/image/mod.rs', 'core/src/drawable.rs', 'src/iterator/mod.rs', 'src/iterator/pixel.rs'],
}

# (regex, replacement, only_for) — applied to one occurrence at a time
OPS = [
    (r'\)\?;', ').ok();', {'C04'}),
    (r'\)\?$', ').ok();Ok(())', {'C04'}),
    (r' \+ 1\b', ' - 1', None), (r' - 1\b', ' + 1', None), (r' \+ 1\b', '', None), (r' - 1\b', '', None),
    (r' < ', ' <= ', None), (r' <= ', ' < ', None), (r' > ', ' >= ', None), (r' >= ', ' > ', None),
    (r'\.min\(', '.max(', None), (r'\.max\(', '.min(', None),
    (r'component_min', 'component_max', None), (r'component_max', 'component_min', None),
    (r' && ', ' || ', None), (r' \|\| ', ' && ', None),
    (r' == ', ' != ', None), (r' != ', ' == ', None),
    (r'\.x\b', '.y', None), (r'\.y\b', '.x', None),
    (r'\bwidth\b', 'height', None), (r'\bheight\b', 'width', None),
    (r'to_le_bytes', 'to_be_bytes', None), (r'to_be_bytes', 'to_le_bytes', None),
    (r'\btrue\b', 'false', None), (r'\bfalse\b', 'true', None),
    (r'saturating_sub', 'wrapping_sub', None),
    (r'top_left', 'size', None),
    (r'\* ', '+ ', None),
    (r'\.is_some\(\)', '.is_none()', None), (r'\.is_none\(\)', '.is_some()', None),
    (r'\.is_on\(\)', '.is_off()', None), (r'\.is_off\(\)', '.is_on()', None),
    (r'\bnth\(', 'nth(1 + ', None),
    (r'BinaryColor::On\b', 'BinaryColor::Off', None),
    (r'-self\.offset', 'self.offset', None),
    (r'\(self\.offset\)', '(-self.offset)', None),
    (r'\.intersection\(&[^()]*(\([^()]*\))?[^()]*\)', '', None),
    (r'\.translate\(', '.translate(Point::new(1, 0) + ', None),
    (r'area\.top_left', 'Point::zero()', None),
    (r'\.filter\(', '.skip(1).filter(', None),
    (r'\.zip\(colors\)', '.zip(colors.into_iter().skip(1))', None),
    (r'repeat\(color\)', 'repeat(color).take(3)', None),
]


def sh(cmd, cwd=None, timeout=3600):
    p = subprocess.run(cmd, shell=True, cwd=cwd, env=ENV, stdout=subprocess.PIPE, stderr=subprocess.STDOUT, timeout=timeout)
    return p.returncode, p.stdout.decode(errors='replace')


def setup():
    os.makedirs(MU, exist_ok=True)
    if not os.path.isdir(MU + '/repo'):
        rc, o = sh('git -C /repo worktree add -q --detach %s/repo HEAD' % MU)
        assert rc == 0, o
    head = subprocess.check_output('git -C /repo rev-parse HEAD', shell=True).decode().strip()
    sh('git checkout -q --detach %s && git checkout -q -- .' % head, cwd=MU + '/repo')
    shutil.rmtree(MU + '/sim', ignore_errors=True) if not os.path.isdir(MU + '/sim/target') else None
    sh('rsync -a --exclude target /verif/sim/ %s/sim/' % MU)
    sh("sed -i 's|path = \"/repo/core\"|path = \"%s/repo/core\"|; s|path = \"/repo\"|path = \"%s/repo\"|' %s/sim/Cargo.toml" % (MU, MU, MU))
    shutil.copy('/verif/known_findings.json', MU + '/known_findings.json')
    rc, o = sh('cargo build --release --offline', cwd=MU + '/sim')
    assert rc == 0, o[-2000:]


def one_renderer_lines(src):
    """line numbers (0-based) inside `fn draw_styled` bodies and inside `fn next` of `impl ... Iterator for
    StyledPixelsIterator` blocks"""
    lines = src.split('\n')
    keep = set()
    i = 0
    in_pixels_impl = False
    while i < len(lines):
        l = lines[i]
        if l.startswith('impl') and 'Iterator for StyledPixelsIterator' in l:
            in_pixels_impl = True
        elif l.startswith('impl') or l.startswith('#[cfg(test)]'):
            in_pixels_impl = False
        if 'fn draw_styled' in l or (in_pixels_impl and 'fn next' in l):
            depth = 0
            started = False
            j = i
            while j < len(lines):
                depth += lines[j].count('{') - lines[j].count('}')
                if '{' in lines[j]:
                    started = True
                if started:
                    keep.add(j)
                if started and depth <= 0:
                    break
                j += 1
            i = j
        i += 1
    return keep


def candidates(prop, path):
    src = open(MU + '/repo/' + path).read()
    cut = src.find('#[cfg(test)]')
    body_end = cut if cut >= 0 else len(src)
    only_lines = one_renderer_lines(src) if prop == 'C01' else None
    out = []
    pos = 0
    for ln, line in enumerate(src[:body_end].split('\n')):
        start = pos
        pos += len(line) + 1
        if only_lines is not None and ln not in only_lines:
            continue
        st = line.strip()
        if st.startswith('//') or st.startswith('#[') or st.startswith('use ') or st.startswith('pub use') or not st:
            continue
        code = line.split('//')[0]
        for rx, rep, only in OPS:
            if only and prop not in only:
                continue
            if prop == 'C04' and not only:
                # only the error-propagation operators are meaningful for C04 (geometry mutants of the
                # same files leave error propagation intact)
                continue
            for m in re.finditer(rx, code):
                out.append((path, ln + 1, start + m.start(), start + m.end(), rep, line.strip()))
    return out


def main():
    limit = 100000
    seed = 1
    props = list(FILES)
    a = sys.argv[1:]
    while a:
        if a[0] == '--limit':
            limit = int(a[1]); a = a[2:]
        elif a[0] == '--seed':
            seed = int(a[1]); a = a[2:]
        elif a[0] == '--props':
            props = a[1].split(','); a = a[2:]
        else:
            sys.exit(__doc__)
    setup()
    os.makedirs('/verif/mutation', exist_ok=True)
    done = set()
    res_path = '/verif/mutation/RESULTS.jsonl'
    if os.path.exists(res_path):
        for l in open(res_path):
            r = json.loads(l); done.add((r['property'], r['file'], r['line'], r['col'], r['replacement']))
    cands = []
    for p in props:
        for f in FILES[p]:
            for c in candidates(p, f):
                cands.append((p,) + c)
    random.Random(seed).shuffle(cands)
    n = 0
    for (prop, path, ln, s0, s1, rep, text) in cands:
        if n >= limit:
            break
        full = MU + '/repo/' + path
        src = open(full).read()
        col = s0 - (src.rfind('\n', 0, s0) + 1)
        key = (prop, path, ln, col, rep)
        if key in done:
            continue
        n += 1
        mutated = src[:s0] + rep + src[s1:]
        open(full, 'w').write(mutated)
        rec = {'property': prop, 'file': path, 'line': ln, 'col': col, 'original': src[s0:s1], 'replacement': rep, 'text': text}
        t0 = time.time()
        rc, o = sh('cargo build --release --offline', cwd=MU + '/sim')
        if rc != 0:
            rec['status'] = 'does_not_compile'
        else:
            rc, o = sh('./target/release/egsim check %s --tier quick --no-evidence' % prop, cwd=MU + '/sim', timeout=1800)
            m = re.search(r'^violation in run (\d+): \[([a-z_]+)\]', o, re.M)
            if rc == 1:
                rec['status'] = 'killed_by_check'
                rec['class'] = m.group(2) if m else 'stuck'
                rec['run'] = int(m.group(1)) if m else None
            elif rc == 0:
                trc, to = sh('cargo test --workspace --no-fail-fast --offline', cwd=MU + '/repo', timeout=3600)
                rec['status'] = 'survived_check_killed_by_tests' if trc != 0 else 'SURVIVED_BOTH'
                if trc != 0:
                    fm = re.findall(r'^test (\S+) \.\.\. FAILED', to, re.M)
                    rec['failing_tests'] = fm[:4] + (['build error'] if not fm else [])
            else:
                rec['status'] = 'harness_error'
                rec['output'] = o[-400:]
        rec['secs'] = round(time.time() - t0, 1)
        open(full, 'w').write(src)
        sh('rm -rf %s/replays' % MU)
        with open(res_path, 'a') as f:
            f.write(json.dumps(rec) + '\n')
        print('%s %s:%d %r->%r  %s %s' % (prop, path, ln, rec['original'], rep, rec['status'], rec.get('class', '')), flush=True)
    sh('git checkout -q -- .', cwd=MU + '/repo')


if __name__ == '__main__':
    main()
