//! The interface between a property's simulation (workload + environment + oracle) and the runner.

use crate::json::J;
use crate::rng::Src;

#[derive(Clone, Copy, PartialEq, Eq, Debug)]
pub enum Tier {
    Quick,
    Thorough,
}

impl Tier {
    pub fn name(self) -> &'static str {
        match self {
            Tier::Quick => "quick",
            Tier::Thorough => "thorough",
        }
    }
}

#[derive(Clone, Debug)]
pub struct Violation {
    /// closed vocabulary per property; shrinking keeps the class
    pub class: &'static str,
    pub message: String,
    /// structured facts about the failing case, matched by known_findings.json predicates
    pub facts: Vec<(&'static str, String)>,
}

impl Violation {
    pub fn new(class: &'static str, message: String) -> Self {
        Violation {
            class,
            message,
            facts: Vec::new(),
        }
    }
    pub fn fact<S: Into<String>>(mut self, k: &'static str, v: S) -> Self {
        self.facts.push((k, v.into()));
        self
    }
}

pub const MAX_FAULT_KINDS: usize = 12;

#[derive(Default)]
pub struct RunOut {
    pub violation: Option<Violation>,
    /// hash of the decoded scenario (distinctness measure)
    pub scen_hash: u64,
    /// hash of scenario + everything observed at the seam + verdict (determinism measure)
    pub trace_hash: u64,
    /// hash of the call-trace shape at the device ("distinct interleavings" measure)
    pub shape_hash: u64,
    pub nontrivial: bool,
    /// bitmask into `Property::probe_names`
    pub probes: u64,
    pub faults_configured: [u32; MAX_FAULT_KINDS],
    pub faults_fired: [u32; MAX_FAULT_KINDS],
    /// logical time: device calls and stream items
    pub calls: u64,
    pub items: u64,
    /// index into the finite configuration lattice (u32::MAX = none)
    pub lattice: u32,
    /// sub-evaluations (e.g. injected faults of C04, steps of a history)
    pub sub_evals: u64,
    pub skipped: Option<&'static str>,
    /// only when `Opts::describe`
    pub desc: Option<J>,
    pub trace: Vec<String>,
}

#[derive(Clone, Copy, Default)]
pub struct Opts {
    pub describe: bool,
}

pub trait Property: Sync {
    type Scenario;

    fn id(&self) -> &'static str;
    fn level(&self) -> &'static str;
    fn technique(&self) -> &'static str;
    fn runs(&self, tier: Tier) -> u64;
    fn probe_names(&self) -> &'static [&'static str];
    fn fault_names(&self) -> &'static [&'static str];
    /// probes that cannot fire on a tree where the property holds (name, reason); they are kept
    /// because they fire under seeded changes
    fn probes_zero_by_construction(&self) -> &'static [(&'static str, &'static str)] {
        &[]
    }
    fn lattice_size(&self) -> u32;
    fn lattice_desc(&self) -> &'static str;
    fn rule(&self) -> &'static str;
    fn assumptions(&self) -> Vec<&'static str>;
    fn sub_eval_name(&self) -> &'static str {
        "sub_evaluations"
    }

    /// All choices of a run are made here, before any library code runs.
    fn gen(&self, src: &mut Src) -> Self::Scenario;
    /// Pure function of the scenario (and of the /repo build).
    fn exec(&self, sc: &Self::Scenario, opts: &Opts) -> RunOut;
}

/// Thorough tier: the generators draw longer histories and the rare wide-bounds classes more often.
/// Set once at start-up (from the tier argument, or from a replay file's `tier` field), read by the
/// generators; it is part of what a tape means, so replay files record the tier.
static DEEP: std::sync::atomic::AtomicBool = std::sync::atomic::AtomicBool::new(false);

pub fn set_deep(v: bool) {
    DEEP.store(v, std::sync::atomic::Ordering::Relaxed);
}
pub fn deep() -> bool {
    DEEP.load(std::sync::atomic::Ordering::Relaxed)
}
