//! The only entropy in the process: splitmix64 -> xoshiro256**, and the choice tape.
//!
//! Every decision of a run is one `draw(n)` on a `Src`. In generation mode the value comes from
//! the PRNG and is appended to the tape; in replay mode the value is read from a tape
//! (exhausted tape -> 0, out-of-range value -> value % n). A run is a pure function of its tape.

pub fn splitmix64(state: &mut u64) -> u64 {
    *state = state.wrapping_add(0x9E37_79B9_7F4A_7C15);
    let mut z = *state;
    z = (z ^ (z >> 30)).wrapping_mul(0xBF58_476D_1CE4_E5B9);
    z = (z ^ (z >> 27)).wrapping_mul(0x94D0_49BB_1331_11EB);
    z ^ (z >> 31)
}

pub fn fnv1a(bytes: &[u8]) -> u64 {
    let mut h: u64 = 0xcbf2_9ce4_8422_2325;
    for b in bytes {
        h ^= *b as u64;
        h = h.wrapping_mul(0x0000_0100_0000_01B3);
    }
    h
}

/// Incremental 64-bit hasher (FNV-1a over u64 words, finished with a splitmix round).
#[derive(Clone, Copy)]
pub struct Hash64(pub u64);

impl Hash64 {
    pub fn new() -> Self {
        Hash64(0xcbf2_9ce4_8422_2325)
    }
    #[inline]
    pub fn u64(&mut self, v: u64) {
        let mut h = self.0;
        h ^= v;
        h = h.wrapping_mul(0x0000_0100_0000_01B3);
        h ^= h >> 29;
        self.0 = h;
    }
    #[inline]
    pub fn i32(&mut self, v: i32) {
        self.u64(v as u32 as u64)
    }
    #[inline]
    pub fn u32(&mut self, v: u32) {
        self.u64(v as u64)
    }
    pub fn bytes(&mut self, b: &[u8]) {
        self.u64(b.len() as u64);
        for c in b.chunks(8) {
            let mut w = 0u64;
            for (i, x) in c.iter().enumerate() {
                w |= (*x as u64) << (8 * i);
            }
            self.u64(w);
        }
    }
    pub fn str(&mut self, s: &str) {
        self.bytes(s.as_bytes())
    }
    pub fn finish(&self) -> u64 {
        let mut s = self.0;
        splitmix64(&mut s)
    }
}

#[derive(Clone)]
pub struct Xoshiro {
    s: [u64; 4],
}

impl Xoshiro {
    pub fn new(seed: u64) -> Self {
        let mut sm = seed;
        let s = [
            splitmix64(&mut sm),
            splitmix64(&mut sm),
            splitmix64(&mut sm),
            splitmix64(&mut sm),
        ];
        Xoshiro { s }
    }
    #[inline]
    pub fn next(&mut self) -> u64 {
        let r = self.s[1].wrapping_mul(5).rotate_left(7).wrapping_mul(9);
        let t = self.s[1] << 17;
        self.s[2] ^= self.s[0];
        self.s[3] ^= self.s[1];
        self.s[1] ^= self.s[2];
        self.s[0] ^= self.s[3];
        self.s[2] ^= t;
        self.s[3] = self.s[3].rotate_left(45);
        r
    }
}

/// Seed of run `i` of property `p` under master seed `m`.
pub fn run_seed(master: u64, prop: &str, i: u64) -> u64 {
    let mut s = master ^ fnv1a(prop.as_bytes()) ^ i.wrapping_mul(0xD6E8_FEB8_6659_FD93);
    splitmix64(&mut s)
}

enum Mode {
    Gen(Xoshiro),
    Replay(usize),
}

/// Choice source.
pub struct Src {
    mode: Mode,
    pub tape: Vec<u32>,
}

impl Src {
    pub fn from_seed(seed: u64) -> Self {
        Src {
            mode: Mode::Gen(Xoshiro::new(seed)),
            tape: Vec::with_capacity(64),
        }
    }
    pub fn from_tape(tape: Vec<u32>) -> Self {
        Src {
            mode: Mode::Replay(0),
            tape,
        }
    }
    /// Number of tape entries consumed (replay) or produced (generation).
    pub fn used(&self) -> usize {
        match &self.mode {
            Mode::Gen(_) => self.tape.len(),
            Mode::Replay(p) => (*p).min(self.tape.len()),
        }
    }
    /// A value in `0..n` (`n >= 1`). Smaller is simpler by convention.
    #[inline]
    pub fn draw(&mut self, n: u32) -> u32 {
        debug_assert!(n >= 1);
        let n = n.max(1);
        match &mut self.mode {
            Mode::Gen(r) => {
                // multiply-shift; bias is irrelevant here
                let v = ((r.next() >> 32) * n as u64 >> 32) as u32;
                self.tape.push(v);
                v
            }
            Mode::Replay(p) => {
                let v = if *p < self.tape.len() {
                    self.tape[*p] % n
                } else {
                    0
                };
                *p += 1;
                v
            }
        }
    }
    #[inline]
    pub fn bool(&mut self) -> bool {
        self.draw(2) == 1
    }
    /// true with probability num/den
    #[inline]
    pub fn chance(&mut self, num: u32, den: u32) -> bool {
        self.draw(den) >= den - num
    }
    /// inclusive range, `lo` is the simplest
    #[inline]
    pub fn range(&mut self, lo: i32, hi: i32) -> i32 {
        debug_assert!(hi >= lo);
        lo + self.draw((hi - lo + 1) as u32) as i32
    }
    /// symmetric range -m..=m, 0 simplest, then +1, -1, +2, ...
    #[inline]
    pub fn sym(&mut self, m: i32) -> i32 {
        let v = self.draw((2 * m + 1) as u32) as i32;
        if v % 2 == 0 {
            -(v / 2)
        } else {
            (v + 1) / 2
        }
    }
    #[inline]
    pub fn pick<T: Copy>(&mut self, xs: &[T]) -> T {
        xs[self.draw(xs.len() as u32) as usize]
    }
    pub fn u32_full(&mut self) -> u32 {
        let hi = self.draw(1 << 16);
        let lo = self.draw(1 << 16);
        (hi << 16) | lo
    }
}

/// Deterministic `std::hash::Hasher`, so `#[derive(Hash)]` on scenario types gives a stable
/// 64-bit scenario hash (no randomly seeded hashing anywhere).
pub struct DetHasher(pub Hash64);

impl std::hash::Hasher for DetHasher {
    fn finish(&self) -> u64 {
        self.0.finish()
    }
    fn write(&mut self, bytes: &[u8]) {
        self.0.bytes(bytes)
    }
    fn write_u8(&mut self, i: u8) {
        self.0.u64(i as u64)
    }
    fn write_u32(&mut self, i: u32) {
        self.0.u64(i as u64)
    }
    fn write_i32(&mut self, i: i32) {
        self.0.u64(i as u32 as u64)
    }
    fn write_u64(&mut self, i: u64) {
        self.0.u64(i)
    }
    fn write_usize(&mut self, i: usize) {
        self.0.u64(i as u64)
    }
}

pub fn det_hash<T: std::hash::Hash>(t: &T) -> u64 {
    use std::hash::Hasher;
    let mut h = DetHasher(Hash64::new());
    t.hash(&mut h);
    h.finish()
}
