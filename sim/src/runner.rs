//! Seeded batch runner: N runs on all cores, verdict independent of thread timing,
//! determinism re-check, minimisation, replay files, evidence files, known findings.

use crate::json::{self, J};
use crate::prop::{Opts, Property, RunOut, Tier, Violation, MAX_FAULT_KINDS};
use crate::rng::{fnv1a, run_seed, Hash64, Src};
use std::collections::BTreeSet;
use std::panic::{catch_unwind, AssertUnwindSafe};
use std::sync::atomic::{AtomicBool, AtomicU64, Ordering};
use std::sync::Mutex;
use std::time::Instant;

pub const DEFAULT_SEED: u64 = 20260926;
/// Where evidence, replays and known_findings.json live. Always /verif for the registered checks;
/// `EGSIM_VERIF_DIR` lets informational tooling (tools/seeded_matrix.sh) work on a private copy.
pub fn verif_dir() -> String {
    std::env::var("EGSIM_VERIF_DIR").unwrap_or_else(|_| "/verif".to_string())
}

pub const EXIT_OK: i32 = 0;
pub const EXIT_VIOLATION: i32 = 1;
pub const EXIT_HARNESS: i32 = 2;

// ---------------------------------------------------------------- panics

thread_local! {
    static QUIET: std::cell::Cell<bool> = std::cell::Cell::new(false);
    static LAST_PANIC: std::cell::RefCell<Option<String>> = std::cell::RefCell::new(None);
}

pub fn install_panic_hook() {
    let default = std::panic::take_hook();
    std::panic::set_hook(Box::new(move |info| {
        let quiet = QUIET.with(|q| q.get());
        if quiet {
            let loc = info
                .location()
                .map(|l| format!("{}:{}", l.file(), l.line()))
                .unwrap_or_else(|| "?".into());
            let msg = if let Some(s) = info.payload().downcast_ref::<&str>() {
                s.to_string()
            } else if let Some(s) = info.payload().downcast_ref::<String>() {
                s.clone()
            } else {
                "<non-string panic>".to_string()
            };
            LAST_PANIC.with(|p| *p.borrow_mut() = Some(format!("{} at {}", msg, loc)));
        } else {
            default(info);
        }
    }));
}

pub fn set_quiet(q: bool) {
    QUIET.with(|c| c.set(q));
}

/// Run `f`, catching a panic; returns Err(description) when it panicked.
pub fn guarded<R>(f: impl FnOnce() -> R) -> Result<R, String> {
    LAST_PANIC.with(|p| *p.borrow_mut() = None);
    match catch_unwind(AssertUnwindSafe(f)) {
        Ok(r) => Ok(r),
        Err(_) => Err(LAST_PANIC
            .with(|p| p.borrow_mut().take())
            .unwrap_or_else(|| "panic".into())),
    }
}

// ---------------------------------------------------------------- known findings

#[derive(Clone, Debug)]
pub struct KnownFinding {
    pub id: String,
    pub property: String,
    pub status: String,
    pub what: String,
    pub class: Option<String>,
    pub where_: Vec<(String, String)>,
}

pub fn load_known_findings() -> Result<Vec<KnownFinding>, String> {
    let path = format!("{}/known_findings.json", verif_dir());
    let text = match std::fs::read_to_string(&path) {
        Ok(t) => t,
        Err(_) => return Ok(Vec::new()),
    };
    let j = json::parse(&text).map_err(|e| format!("{}: {}", path, e))?;
    let mut out = Vec::new();
    let arr = j
        .get("findings")
        .and_then(|a| a.as_arr())
        .ok_or_else(|| format!("{}: missing 'findings' array", path))?;
    for e in arr {
        let gs = |k: &str| e.get(k).and_then(|v| v.as_str()).map(|s| s.to_string());
        let id = gs("id").ok_or("finding without id")?;
        let property = gs("property").ok_or("finding without property")?;
        let status = gs("status").ok_or("finding without status")?;
        let what = gs("what").unwrap_or_default();
        let m = e.get("match");
        let class = m
            .and_then(|m| m.get("class"))
            .and_then(|c| c.as_str())
            .map(|s| s.to_string());
        let mut where_ = Vec::new();
        if let Some(w) = m.and_then(|m| m.get("where")).and_then(|w| w.as_obj()) {
            for (k, v) in w {
                let vs = match v {
                    J::Str(s) => s.clone(),
                    J::Int(i) => i.to_string(),
                    J::Bool(b) => b.to_string(),
                    other => other.to_string(),
                };
                where_.push((k.clone(), vs));
            }
        }
        if status == "open" && class.is_none() {
            return Err(format!("open finding {} has no match.class", id));
        }
        out.push(KnownFinding {
            id,
            property,
            status,
            what,
            class,
            where_,
        });
    }
    Ok(out)
}

pub fn match_known<'a>(kfs: &'a [KnownFinding], prop: &str, v: &Violation) -> Option<&'a KnownFinding> {
    kfs.iter().find(|k| {
        k.property == prop
            && k.status == "open"
            && k.class.as_deref() == Some(v.class)
            && k.where_.iter().all(|(wk, wv)| {
                v.facts
                    .iter()
                    .any(|(fk, fv)| fk == wk && fv == wv)
            })
    })
}

// ---------------------------------------------------------------- aggregation

struct Agg {
    evaluations: u64,
    sub_evals: u64,
    nontrivial: u64,
    scen_hashes: Vec<u64>,
    shape_hashes: BTreeSet<u64>,
    lattice: BTreeSet<u32>,
    probes: [u64; 64],
    fcfg: [u64; MAX_FAULT_KINDS],
    ffired: [u64; MAX_FAULT_KINDS],
    calls: u64,
    items: u64,
    skipped: Vec<(&'static str, u64)>,
    known_hits: Vec<(String, u64)>,
    sampled: Vec<(u64, u64)>,
    best_sample: Option<(u64, u64)>, // (calls, index) of the non-trivial run with most device calls
    violations: Vec<(u64, Violation)>,
    panicked_harness: Vec<(u64, String)>,
}

impl Agg {
    fn new() -> Self {
        Agg {
            evaluations: 0,
            sub_evals: 0,
            nontrivial: 0,
            scen_hashes: Vec::new(),
            shape_hashes: BTreeSet::new(),
            lattice: BTreeSet::new(),
            probes: [0; 64],
            fcfg: [0; MAX_FAULT_KINDS],
            ffired: [0; MAX_FAULT_KINDS],
            calls: 0,
            items: 0,
            skipped: Vec::new(),
            known_hits: Vec::new(),
            sampled: Vec::new(),
            best_sample: None,
            violations: Vec::new(),
            panicked_harness: Vec::new(),
        }
    }
    fn add(&mut self, i: u64, out: &RunOut) {
        self.evaluations += 1;
        self.sub_evals += out.sub_evals;
        if out.nontrivial {
            self.nontrivial += 1;
            self.scen_hashes.push(out.scen_hash);
            let key = (out.calls, u64::MAX - i);
            if self.best_sample.map_or(true, |(c, idx)| key > (c, u64::MAX - idx)) {
                self.best_sample = Some((out.calls, i));
            }
        }
        self.shape_hashes.insert(out.shape_hash);
        if out.lattice != u32::MAX {
            self.lattice.insert(out.lattice);
        }
        let mut p = out.probes;
        while p != 0 {
            let b = p.trailing_zeros() as usize;
            self.probes[b] += 1;
            p &= p - 1;
        }
        for k in 0..MAX_FAULT_KINDS {
            self.fcfg[k] += out.faults_configured[k] as u64;
            self.ffired[k] += out.faults_fired[k] as u64;
        }
        self.calls += out.calls;
        self.items += out.items;
        if let Some(s) = out.skipped {
            if let Some(e) = self.skipped.iter_mut().find(|(k, _)| *k == s) {
                e.1 += 1;
            } else {
                self.skipped.push((s, 1));
            }
        }
    }
    fn merge(&mut self, o: Agg) {
        self.evaluations += o.evaluations;
        self.sub_evals += o.sub_evals;
        self.nontrivial += o.nontrivial;
        self.scen_hashes.extend(o.scen_hashes);
        self.shape_hashes.extend(o.shape_hashes);
        self.lattice.extend(o.lattice);
        for i in 0..64 {
            self.probes[i] += o.probes[i];
        }
        for k in 0..MAX_FAULT_KINDS {
            self.fcfg[k] += o.fcfg[k];
            self.ffired[k] += o.ffired[k];
        }
        self.calls += o.calls;
        self.items += o.items;
        for (s, n) in o.skipped {
            if let Some(e) = self.skipped.iter_mut().find(|(k, _)| *k == s) {
                e.1 += n;
            } else {
                self.skipped.push((s, n));
            }
        }
        for (s, n) in o.known_hits {
            if let Some(e) = self.known_hits.iter_mut().find(|(k, _)| *k == s) {
                e.1 += n;
            } else {
                self.known_hits.push((s, n));
            }
        }
        self.sampled.extend(o.sampled);
        if let Some((c, i)) = o.best_sample {
            let key = (c, u64::MAX - i);
            if self
                .best_sample
                .map_or(true, |(c2, i2)| key > (c2, u64::MAX - i2))
            {
                self.best_sample = Some((c, i));
            }
        }
        self.violations.extend(o.violations);
        self.panicked_harness.extend(o.panicked_harness);
    }
}

// ---------------------------------------------------------------- running one tape

pub fn run_index<P: Property>(p: &P, master: u64, i: u64, opts: &Opts) -> (Result<RunOut, String>, Vec<u32>) {
    let mut src = Src::from_seed(run_seed(master, p.id(), i));
    let sc = match guarded(|| p.gen(&mut src)) {
        Ok(sc) => sc,
        Err(e) => return (Err(format!("generator panicked: {}", e)), src.tape),
    };
    let out = guarded(|| p.exec(&sc, opts)).map_err(|e| format!("harness panicked in exec: {}", e));
    (out, src.tape)
}

pub fn run_tape<P: Property>(p: &P, tape: &[u32], opts: &Opts) -> (Result<RunOut, String>, usize) {
    let mut src = Src::from_tape(tape.to_vec());
    let sc = match guarded(|| p.gen(&mut src)) {
        Ok(sc) => sc,
        Err(e) => return (Err(format!("generator panicked: {}", e)), src.used()),
    };
    let used = src.used();
    let out = guarded(|| p.exec(&sc, opts)).map_err(|e| format!("harness panicked in exec: {}", e));
    (out, used)
}

// ---------------------------------------------------------------- minimisation

/// Shrink `tape` while `same(tape)` holds (same violation class, same known-finding status).
pub fn shrink<F: FnMut(&[u32]) -> bool>(tape: &[u32], mut same: F, budget: usize, deadline_s: f64) -> (Vec<u32>, usize) {
    let start = Instant::now();
    let mut best = tape.to_vec();
    let mut evals = 0usize;
    let mut progress = true;
    let over = |evals: usize, start: &Instant| evals >= budget || start.elapsed().as_secs_f64() > deadline_s;
    while progress && !over(evals, &start) {
        progress = false;
        // 1. delete blocks
        for &bs in &[16usize, 8, 4, 2, 1] {
            let mut pos = 0usize;
            while pos + bs <= best.len() && !over(evals, &start) {
                let mut cand = best.clone();
                cand.drain(pos..pos + bs);
                evals += 1;
                if same(&cand) {
                    best = cand;
                    progress = true;
                } else {
                    pos += 1;
                }
            }
        }
        // 2. zero values, then halve, then decrement
        let mut pos = 0usize;
        while pos < best.len() && !over(evals, &start) {
            if best[pos] != 0 {
                let orig = best[pos];
                let mut cands = vec![0u32, orig / 2, orig - 1];
                cands.dedup();
                for c in cands {
                    if c >= best[pos] {
                        continue;
                    }
                    let mut cand = best.clone();
                    cand[pos] = c;
                    evals += 1;
                    if same(&cand) {
                        best = cand;
                        progress = true;
                        break;
                    }
                }
                // keep lowering the same position while it works
                while best[pos] != 0 && best[pos] < orig && !over(evals, &start) {
                    let cur = best[pos];
                    let mut cand = best.clone();
                    cand[pos] = cur - 1;
                    evals += 1;
                    if same(&cand) {
                        best = cand;
                    } else {
                        break;
                    }
                    if cur - 1 == 0 {
                        break;
                    }
                }
            }
            pos += 1;
        }
        // 2b. shorten a generated list: lower a count and delete the entries of that many elements
        // right behind it (k entries per element, k = 1..=8)
        let mut pos = 0usize;
        while pos < best.len() && !over(evals, &start) {
            let v = best[pos];
            if v > 0 && v <= 64 {
                let mut done = false;
                for d in [v, (v + 1) / 2, 1] {
                    if done || d == 0 {
                        continue;
                    }
                    for k in 1..=8usize {
                        let del = d as usize * k;
                        if pos + 1 + del > best.len() {
                            break;
                        }
                        let mut cand = best.clone();
                        cand[pos] = v - d;
                        cand.drain(pos + 1..pos + 1 + del);
                        evals += 1;
                        if same(&cand) {
                            best = cand;
                            progress = true;
                            done = true;
                            break;
                        }
                        if over(evals, &start) {
                            break;
                        }
                    }
                }
            }
            pos += 1;
        }
        // 3. truncate the tail (exhausted tape reads as 0)
        while !best.is_empty() && !over(evals, &start) {
            let mut cand = best.clone();
            cand.pop();
            evals += 1;
            if same(&cand) {
                best = cand;
                progress = true;
            } else {
                break;
            }
        }
    }
    (best, evals)
}

// ---------------------------------------------------------------- replay files

fn tape_hash(prop: &str, tape: &[u32]) -> u64 {
    let mut h = Hash64::new();
    h.str(prop);
    for t in tape {
        h.u32(*t);
    }
    h.finish()
}

pub struct ReplayInfo<'a> {
    pub prop: &'a str,
    pub tier: &'a str,
    pub master_seed: u64,
    pub run_index: Option<u64>,
    pub tape: &'a [u32],
    pub violation: &'a Violation,
    pub desc: Option<J>,
    pub trace: &'a [String],
    pub minimised_from: Option<usize>,
    pub shrink_evals: usize,
}

pub fn write_replay(info: &ReplayInfo) -> Result<String, String> {
    let dir = format!("{}/replays", verif_dir());
    std::fs::create_dir_all(&dir).map_err(|e| e.to_string())?;
    let path = format!("{}/{}-{:016x}.json", dir, info.prop, tape_hash(info.prop, info.tape));
    let mut j = J::obj()
        .set("format", J::i(1))
        .set("property", J::s(info.prop))
        .set("class", J::s(info.violation.class))
        .set("message", J::s(info.violation.message.clone()))
        .set(
            "facts",
            J::Obj(
                info.violation
                    .facts
                    .iter()
                    .map(|(k, v)| (k.to_string(), J::s(v.clone())))
                    .collect(),
            ),
        )
        .set("master_seed", J::u(info.master_seed))
        .set(
            "run_index",
            info.run_index.map(J::u).unwrap_or(J::Null),
        )
        .set("tier", J::s(info.tier))
        .set("tape", J::Arr(info.tape.iter().map(|t| J::Int(*t as i64)).collect()));
    if let Some(d) = &info.desc {
        j.put("scenario", d.clone());
    }
    j.put(
        "trace",
        J::Arr(info.trace.iter().take(400).map(|s| J::s(s.clone())).collect()),
    );
    if let Some(n) = info.minimised_from {
        j.put(
            "minimised_from",
            J::obj()
                .set("tape_len", J::u(n as u64))
                .set("shrink_evaluations", J::u(info.shrink_evals as u64)),
        );
    }
    j.put(
        "replay_cmd",
        J::s(format!("./bin/check --replay {}", path)),
    );
    std::fs::write(&path, j.pretty()).map_err(|e| e.to_string())?;
    Ok(path)
}

pub fn replay_file<P: Property>(p: &P, j: &J, path: &str) -> i32 {
    let tape: Vec<u32> = match j.get("tape").and_then(|t| t.as_arr()) {
        Some(a) => a.iter().map(|v| v.as_i64().unwrap_or(0) as u32).collect(),
        None => {
            eprintln!("replay file has no tape");
            return EXIT_HARNESS;
        }
    };
    let want_class = j.get("class").and_then(|c| c.as_str()).unwrap_or("");
    // a replay that makes the library loop for ever is reported (as the `stuck` class) after 120 s
    let done = std::sync::Arc::new(AtomicBool::new(false));
    {
        let done = done.clone();
        let prop = p.id().to_string();
        let path = path.to_string();
        std::thread::spawn(move || {
            let t0 = Instant::now();
            while !done.load(Ordering::Relaxed) {
                std::thread::sleep(std::time::Duration::from_millis(250));
                if t0.elapsed().as_secs_f64() > 120.0 {
                    println!("class: stuck");
                    println!("message: the replayed run did not complete within 120 s wall-clock");
                    println!("VIOLATION property={} replay={}", prop, path);
                    std::process::exit(EXIT_VIOLATION);
                }
            }
        });
    }
    set_quiet(true);
    let (out, _used) = run_tape(p, &tape, &Opts { describe: true });
    set_quiet(false);
    done.store(true, Ordering::Relaxed);
    match out {
        Err(e) => {
            eprintln!("harness error during replay: {}", e);
            EXIT_HARNESS
        }
        Ok(out) => {
            if let Some(d) = &out.desc {
                println!("scenario: {}", d.to_string());
            }
            for l in out.trace.iter().take(200) {
                println!("  trace: {}", l);
            }
            match out.violation {
                Some(v) => {
                    println!("class: {}", v.class);
                    println!("message: {}", v.message);
                    if v.class != want_class {
                        println!("note: recorded class was '{}'", want_class);
                    }
                    println!("VIOLATION property={} replay={}", p.id(), path);
                    EXIT_VIOLATION
                }
                None => {
                    println!(
                        "replay of {} no longer violates {} on this tree",
                        path,
                        p.id()
                    );
                    EXIT_OK
                }
            }
        }
    }
}

// ---------------------------------------------------------------- batch

pub struct BatchCfg {
    pub tier: Tier,
    pub master_seed: u64,
    pub runs_override: Option<u64>,
    pub threads: usize,
    pub write_evidence: bool,
    /// print per-run trace hashes to this file (selftest)
    pub dump_hashes: Option<String>,
    pub wall_cap_s: f64,
}

pub fn run_batch<P: Property>(p: &P, cfg: &BatchCfg) -> i32 {
    let t0 = Instant::now();
    let prop = p.id();
    let kfs = match load_known_findings() {
        Ok(k) => k,
        Err(e) => {
            eprintln!("harness error: {}", e);
            return EXIT_HARNESS;
        }
    };
    let n = cfg.runs_override.unwrap_or_else(|| p.runs(cfg.tier));
    println!(
        "egsim check property={} tier={} VERIF_SEED={} runs={} threads={}",
        prop,
        cfg.tier.name(),
        cfg.master_seed,
        n,
        cfg.threads
    );
    for k in kfs.iter().filter(|k| k.property == prop && k.status == "open") {
        println!("KNOWN-FINDING: property={} {} ({})", prop, k.what, k.id);
    }

    let counter = AtomicU64::new(0);
    let stop = AtomicBool::new(false);
    let capped = AtomicBool::new(false);
    let total = Mutex::new(Agg::new());
    let all_hashes: Mutex<Vec<(u64, u64)>> = Mutex::new(Vec::new());
    // watchdog state: per worker (run index, start instant)
    let slots: Vec<Mutex<Option<(u64, Instant)>>> = (0..cfg.threads).map(|_| Mutex::new(None)).collect();
    let done = AtomicBool::new(false);
    let dump = cfg.dump_hashes.is_some();

    std::thread::scope(|s| {
        // watchdog
        s.spawn(|| {
            while !done.load(Ordering::Relaxed) {
                std::thread::sleep(std::time::Duration::from_millis(500));
                for slot in slots.iter() {
                    let cur = *slot.lock().unwrap();
                    if let Some((i, st)) = cur {
                        if st.elapsed().as_secs_f64() > 60.0 {
                            // a run that never returns: dump its tape (regenerated from the seed) and exit 1
                            let mut src = Src::from_seed(run_seed(cfg.master_seed, prop, i));
                            let _ = guarded(|| p.gen(&mut src));
                            let v = Violation::new(
                                "stuck",
                                format!("run {} did not complete within 60 s wall-clock (library code loops without calling the device)", i),
                            );
                            let path = write_replay(&ReplayInfo {
                                prop,
                                tier: cfg.tier.name(),
                                master_seed: cfg.master_seed,
                                run_index: Some(i),
                                tape: &src.tape,
                                violation: &v,
                                desc: None,
                                trace: &[],
                                minimised_from: None,
                                shrink_evals: 0,
                            })
                            .unwrap_or_else(|e| format!("<unwritable: {}>", e));
                            println!("VIOLATION property={} replay={}", prop, path);
                            std::process::exit(EXIT_VIOLATION);
                        }
                    }
                }
            }
        });
        let mut handles = Vec::new();
        for w in 0..cfg.threads {
            let counter = &counter;
            let stop = &stop;
            let capped = &capped;
            let total = &total;
            let kfs = &kfs;
            let slots = &slots;
            let all_hashes = &all_hashes;
            handles.push(s.spawn(move || {
                set_quiet(true);
                let mut agg = Agg::new();
                let mut hashes: Vec<(u64, u64)> = Vec::new();
                let opts = Opts { describe: false };
                loop {
                    if stop.load(Ordering::Relaxed) {
                        break;
                    }
                    let i = counter.fetch_add(1, Ordering::Relaxed);
                    if i >= n {
                        break;
                    }
                    if i % 1024 == 0 && t0.elapsed().as_secs_f64() > cfg.wall_cap_s {
                        capped.store(true, Ordering::Relaxed);
                        stop.store(true, Ordering::Relaxed);
                    }
                    *slots[w].lock().unwrap() = Some((i, Instant::now()));
                    let (out, _tape) = run_index(p, cfg.master_seed, i, &opts);
                    *slots[w].lock().unwrap() = None;
                    match out {
                        Err(e) => {
                            agg.panicked_harness.push((i, e));
                            stop.store(true, Ordering::Relaxed);
                        }
                        Ok(out) => {
                            agg.add(i, &out);
                            if i % 97 == 13 {
                                agg.sampled.push((i, out.trace_hash));
                            }
                            if dump {
                                hashes.push((i, out.trace_hash));
                            }
                            if let Some(v) = out.violation {
                                if let Some(k) = match_known(kfs, prop, &v) {
                                    let id = k.id.clone();
                                    if let Some(e) = agg.known_hits.iter_mut().find(|(kk, _)| *kk == id) {
                                        e.1 += 1;
                                    } else {
                                        agg.known_hits.push((id, 1));
                                    }
                                } else {
                                    agg.violations.push((i, v));
                                    stop.store(true, Ordering::Relaxed);
                                }
                            }
                        }
                    }
                }
                set_quiet(false);
                total.lock().unwrap().merge(agg);
                if dump {
                    all_hashes.lock().unwrap().extend(hashes);
                }
            }));
        }
        for h in handles {
            let _ = h.join();
        }
        done.store(true, Ordering::Relaxed);
    });

    let mut agg = total.into_inner().unwrap();

    if let Some(path) = &cfg.dump_hashes {
        let mut v = all_hashes.into_inner().unwrap();
        v.sort();
        let mut s = String::new();
        for (i, h) in v {
            s.push_str(&format!("{} {:016x}\n", i, h));
        }
        if let Err(e) = std::fs::write(path, s) {
            eprintln!("harness error: cannot write {}: {}", path, e);
            return EXIT_HARNESS;
        }
    }

    if !agg.panicked_harness.is_empty() {
        agg.panicked_harness.sort();
        let (i, e) = &agg.panicked_harness[0];
        eprintln!("harness error in run {} (seed {}): {}", i, cfg.master_seed, e);
        return EXIT_HARNESS;
    }

    // determinism re-check: re-execute the sampled runs in reverse order on other workers
    let mut mismatches = 0u64;
    let sampled = std::mem::take(&mut agg.sampled);
    {
        let idx = AtomicU64::new(0);
        let mism = AtomicU64::new(0);
        let sampled_ref = &sampled;
        std::thread::scope(|s| {
            for _ in 0..cfg.threads {
                s.spawn(|| {
                    set_quiet(true);
                    loop {
                        let k = idx.fetch_add(1, Ordering::Relaxed) as usize;
                        if k >= sampled_ref.len() {
                            break;
                        }
                        let (i, h) = sampled_ref[sampled_ref.len() - 1 - k];
                        let (out, _) = run_index(p, cfg.master_seed, i, &Opts { describe: false });
                        match out {
                            Ok(o) if o.trace_hash == h => {}
                            _ => {
                                mism.fetch_add(1, Ordering::Relaxed);
                            }
                        }
                    }
                    set_quiet(false);
                });
            }
        });
        mismatches += mism.load(Ordering::Relaxed);
    }
    if mismatches > 0 {
        eprintln!(
            "harness error: {} of {} re-executed runs produced a different trace hash (nondeterminism in the simulator)",
            mismatches,
            sampled.len()
        );
        return EXIT_HARNESS;
    }

    // violation handling
    let mut exit = EXIT_OK;
    let mut violation_json = J::Null;
    agg.violations.sort_by_key(|(i, _)| *i);
    if let Some((i, v)) = agg.violations.first().cloned() {
        exit = EXIT_VIOLATION;
        set_quiet(true);
        let (_, tape) = run_index(p, cfg.master_seed, i, &Opts::default());
        let class = v.class;
        let orig_len = tape.len();
        let kfs_ref = &kfs;
        // Minimisation runs library code on candidate tapes, and a candidate may make the library
        // loop for ever (seen with a mutant of Rectangle::points). A watchdog covers this phase too:
        // if one candidate takes more than 60 s, the best tape found so far is written as the
        // replay file, the VIOLATION line is printed and the process exits 1.
        let best: Mutex<Vec<u32>> = Mutex::new(tape.clone());
        let active: Mutex<Option<Instant>> = Mutex::new(None);
        let finished = AtomicBool::new(false);
        let v_orig = v.clone();
        let (small, evals) = std::thread::scope(|s| {
            s.spawn(|| {
                while !finished.load(Ordering::Relaxed) {
                    std::thread::sleep(std::time::Duration::from_millis(250));
                    let started = *active.lock().unwrap();
                    if let Some(t) = started {
                        if t.elapsed().as_secs_f64() > 60.0 {
                            let b = best.lock().unwrap().clone();
                            let path = write_replay(&ReplayInfo {
                                prop,
                                tier: cfg.tier.name(),
                                master_seed: cfg.master_seed,
                                run_index: Some(i),
                                tape: &b,
                                violation: &v_orig,
                                desc: None,
                                trace: &["minimisation was cut short: a shrink candidate did not complete within 60 s".to_string()],
                                minimised_from: Some(orig_len),
                                shrink_evals: 0,
                            })
                            .unwrap_or_else(|e| format!("<unwritable: {}>", e));
                            println!("violation in run {}: [{}] {}", i, v_orig.class, v_orig.message);
                            println!("VIOLATION property={} replay={}", prop, path);
                            std::process::exit(EXIT_VIOLATION);
                        }
                    }
                }
            });
            let r = shrink(
                &tape,
                |t| {
                    *active.lock().unwrap() = Some(Instant::now());
                    let (o, _) = run_tape(p, t, &Opts::default());
                    *active.lock().unwrap() = None;
                    let ok = match o {
                        Ok(RunOut {
                            violation: Some(v2), ..
                        }) => v2.class == class && match_known(kfs_ref, prop, &v2).is_none(),
                        _ => false,
                    };
                    if ok {
                        *best.lock().unwrap() = t.to_vec();
                    }
                    ok
                },
                if cfg.tier == Tier::Quick { 8000 } else { 30000 },
                if cfg.tier == Tier::Quick { 30.0 } else { 120.0 },
            );
            finished.store(true, Ordering::Relaxed);
            r
        });
        let (o, used) = run_tape(p, &small, &Opts { describe: true });
        set_quiet(false);
        let mut small = small;
        small.truncate(used);
        let (desc, trace, v_final) = match o {
            Ok(o) => (o.desc, o.trace, o.violation.unwrap_or(v.clone())),
            Err(_) => (None, Vec::new(), v.clone()),
        };
        let path = write_replay(&ReplayInfo {
            prop,
            tier: cfg.tier.name(),
            master_seed: cfg.master_seed,
            run_index: Some(i),
            tape: &small,
            violation: &v_final,
            desc: desc.clone(),
            trace: &trace,
            minimised_from: Some(orig_len),
            shrink_evals: evals,
        })
        .unwrap_or_else(|e| format!("<unwritable: {}>", e));
        println!("violation in run {}: [{}] {}", i, v_final.class, v_final.message);
        if let Some(d) = &desc {
            println!("minimised scenario: {}", d.to_string());
        }
        println!("VIOLATION property={} replay={}", prop, path);
        violation_json = J::obj()
            .set("run_index", J::u(i))
            .set("class", J::s(v_final.class))
            .set("message", J::s(v_final.message.clone()))
            .set("replay", J::s(path));
    }

    // evidence
    let wall = t0.elapsed().as_secs_f64();
    agg.scen_hashes.sort_unstable();
    agg.scen_hashes.dedup();
    let distinct_nontrivial = agg.scen_hashes.len() as u64;

    let mut samples = Vec::new();
    let mut sample_idx: Vec<u64> = vec![0];
    if let Some((_, i)) = agg.best_sample {
        sample_idx.push(i);
    }
    if n > 2 {
        sample_idx.push(n / 2);
    }
    sample_idx.dedup();
    set_quiet(true);
    for i in sample_idx {
        if i >= agg.evaluations && agg.evaluations < n {
            continue;
        }
        let (o, tape) = run_index(p, cfg.master_seed, i, &Opts { describe: true });
        if let Ok(o) = o {
            let mut sj = J::obj()
                .set("run_index", J::u(i))
                .set("tape_len", J::u(tape.len() as u64))
                .set("scenario", o.desc.unwrap_or(J::Null))
                .set("device_calls", J::u(o.calls))
                .set("stream_items", J::u(o.items))
                .set("nontrivial", J::Bool(o.nontrivial));
            sj.put(
                "trace_head",
                J::Arr(o.trace.iter().take(12).map(|s| J::s(s.clone())).collect()),
            );
            samples.push(sj);
        }
    }
    set_quiet(false);

    let probes = J::Obj(
        p.probe_names()
            .iter()
            .enumerate()
            .map(|(i, nme)| (nme.to_string(), J::u(agg.probes[i])))
            .collect(),
    );
    let zero_probes: Vec<J> = p
        .probe_names()
        .iter()
        .enumerate()
        .filter(|(i, _)| agg.probes[*i] == 0)
        .map(|(_, nme)| J::s(*nme))
        .collect();
    let fault_kinds = J::Obj(
        p.fault_names()
            .iter()
            .enumerate()
            .map(|(i, nme)| {
                (
                    nme.to_string(),
                    J::obj()
                        .set("configured", J::u(agg.fcfg[i]))
                        .set("fired", J::u(agg.ffired[i])),
                )
            })
            .collect(),
    );
    let per_hour = |x: u64| -> J { J::u((x as f64 / wall.max(1e-6) * 3600.0) as u64) };
    let coverage = J::obj()
        .set("evaluations", J::u(agg.evaluations))
        .set("distinct_nontrivial", J::u(distinct_nontrivial))
        .set("nontrivial_runs", J::u(agg.nontrivial))
        .set("rule", J::s(p.rule()))
        .set("samples", J::Arr(samples))
        .set("exhaustive", J::Bool(false))
        .set(p.sub_eval_name(), J::u(agg.sub_evals))
        .set("fault_kinds", fault_kinds)
        .set("probes", probes)
        .set("probes_at_zero", J::Arr(zero_probes))
        .set(
            "probes_zero_by_construction",
            p.probes_zero_by_construction().iter().fold(J::obj(), |o, (n, why)| o.set(*n, J::s(why.to_string()))),
        )
        .set(
            "config_lattice",
            J::obj()
                .set("covered", J::u(agg.lattice.len() as u64))
                .set("total", J::u(p.lattice_size() as u64))
                .set("what", J::s(p.lattice_desc())),
        )
        .set("distinct_trace_shapes", J::u(agg.shape_hashes.len() as u64))
        .set(
            "logical_steps",
            J::obj()
                .set("device_calls", J::u(agg.calls))
                .set("stream_items", J::u(agg.items))
                .set(
                    "note",
                    J::s("no clock exists in the library; simulated time is the logical step counter (device call index, stream item index)"),
                ),
        )
        .set("runs_per_hour", per_hour(agg.evaluations))
        .set("seeds_per_hour", per_hour(agg.evaluations))
        .set(
            "determinism_recheck",
            J::obj()
                .set("sampled", J::u(sampled.len() as u64))
                .set("mismatches", J::u(mismatches)),
        )
        .set(
            "skipped",
            J::Obj(
                agg.skipped
                    .iter()
                    .map(|(k, v)| (k.to_string(), J::u(*v)))
                    .collect(),
            ),
        )
        .set(
            "known_findings_hit",
            J::Obj(
                agg.known_hits
                    .iter()
                    .map(|(k, v)| (k.clone(), J::u(*v)))
                    .collect(),
            ),
        )
        .set("wall_cap_hit", J::Bool(capped.load(Ordering::Relaxed)))
        .set("technique", J::s(p.technique()))
        .set("components", crate::components_json())
        .set("violation", violation_json);

    let ev = J::obj()
        .set("property_id", J::s(prop))
        .set("tier", J::s(cfg.tier.name()))
        .set("seed", J::u(cfg.master_seed))
        .set("level", J::s(p.level()))
        .set("coverage", coverage)
        .set(
            "assumptions",
            J::Arr(p.assumptions().iter().map(|s| J::s(*s)).collect()),
        )
        .set("wall_s", J::Num((wall * 1000.0).round() / 1000.0))
        .set("violations", J::i(if exit == EXIT_VIOLATION { 1 } else { 0 }));

    if cfg.write_evidence {
        let dir = format!("{}/evidence", verif_dir());
        let _ = std::fs::create_dir_all(&dir);
        let path = format!("{}/{}.json", dir, prop);
        if let Err(e) = std::fs::write(&path, ev.pretty()) {
            eprintln!("harness error: cannot write {}: {}", path, e);
            return EXIT_HARNESS;
        }
    }

    println!(
        "property={} tier={} runs={} {}={} distinct_nontrivial={} trace_shapes={} lattice={}/{} device_calls={} items={} known_hits={:?} wall={:.1}s => {}",
        prop,
        cfg.tier.name(),
        agg.evaluations,
        p.sub_eval_name(),
        agg.sub_evals,
        distinct_nontrivial,
        agg.shape_hashes.len(),
        agg.lattice.len(),
        p.lattice_size(),
        agg.calls,
        agg.items,
        agg.known_hits,
        wall,
        if exit == EXIT_OK { "HELD" } else { "VIOLATED" }
    );
    let zp: Vec<&str> = p
        .probe_names()
        .iter()
        .enumerate()
        .filter(|(i, _)| agg.probes[*i] == 0)
        .map(|(_, n)| *n)
        .filter(|n| !p.probes_zero_by_construction().iter().any(|(z, _)| z == n))
        .collect();
    if !zp.is_empty() {
        println!("note: probes at zero: {:?}", zp);
    }
    let _ = fnv1a;
    exit
}
