//! Runtime adapter stacks without a type explosion: a transparent, object-safe forwarding shim
//! (`DynTarget`) between the library's real `Clipped` / `Cropped` / `Translated` /
//! `ColorConverted` adapters. The shim forwards each of the four methods 1:1 with the same lazily
//! pulled iterator, and `bounding_box` unchanged.

use crate::dev::{SimColor, SimError};
use crate::json::J;
use embedded_graphics::draw_target::DrawTargetExt;
use embedded_graphics::prelude::*;
use embedded_graphics::primitives::Rectangle;
use embedded_graphics::Pixel;

pub trait Erased<C: SimColor> {
    fn e_bbox(&self) -> Rectangle;
    fn e_draw_iter(&mut self, px: &mut dyn Iterator<Item = Pixel<C>>) -> Result<(), SimError>;
    fn e_fill_contiguous(&mut self, a: &Rectangle, cs: &mut dyn Iterator<Item = C>) -> Result<(), SimError>;
    fn e_fill_solid(&mut self, a: &Rectangle, c: C) -> Result<(), SimError>;
    fn e_clear(&mut self, c: C) -> Result<(), SimError>;
}

impl<C: SimColor, T: DrawTarget<Color = C, Error = SimError>> Erased<C> for T {
    fn e_bbox(&self) -> Rectangle {
        self.bounding_box()
    }
    fn e_draw_iter(&mut self, px: &mut dyn Iterator<Item = Pixel<C>>) -> Result<(), SimError> {
        self.draw_iter(px)
    }
    fn e_fill_contiguous(&mut self, a: &Rectangle, cs: &mut dyn Iterator<Item = C>) -> Result<(), SimError> {
        self.fill_contiguous(a, cs)
    }
    fn e_fill_solid(&mut self, a: &Rectangle, c: C) -> Result<(), SimError> {
        self.fill_solid(a, c)
    }
    fn e_clear(&mut self, c: C) -> Result<(), SimError> {
        self.clear(c)
    }
}

pub struct DynTarget<'a, C: SimColor> {
    inner: &'a mut (dyn Erased<C> + 'a),
}

impl<'a, C: SimColor> DynTarget<'a, C> {
    pub fn new<T: DrawTarget<Color = C, Error = SimError> + 'a>(t: &'a mut T) -> Self {
        DynTarget { inner: t }
    }
}

impl<C: SimColor> Dimensions for DynTarget<'_, C> {
    fn bounding_box(&self) -> Rectangle {
        self.inner.e_bbox()
    }
}

thread_local! {
    /// Internal iteration: the shim is transparent for `next` (and `nth`, which `&mut I` forwards),
    /// but an `Iterator::fold` override of a library iterator can never be reached through a
    /// `&mut dyn Iterator`. When this flag is on (devices that walk pixel streams with `for_each`),
    /// the shim itself consumes the iterator it is handed with `for_each` — a target that buffers
    /// the pixels before transmitting them — and hands the buffer on.
    static FOLD_MODE: std::cell::Cell<bool> = std::cell::Cell::new(false);
    /// `fill_contiguous` calls seen by shims in fold mode during this run (selects the consumption style)
    static SHIM_FILLS: std::cell::Cell<u64> = std::cell::Cell::new(0);
    static COLOUR_FOLD: std::cell::Cell<bool> = std::cell::Cell::new(true);
}

pub fn set_fold_mode(on: bool) {
    FOLD_MODE.with(|f| f.set(on));
    SHIM_FILLS.with(|f| f.set(0));
    COLOUR_FOLD.with(|f| f.set(true));
}

/// Switched off by a workload around an operation whose colour stream it knows to be endless.
pub fn set_colour_fold(on: bool) {
    COLOUR_FOLD.with(|f| f.set(on));
}

impl<C: SimColor> DrawTarget for DynTarget<'_, C> {
    type Color = C;
    type Error = SimError;

    fn draw_iter<I>(&mut self, pixels: I) -> Result<(), SimError>
    where
        I: IntoIterator<Item = Pixel<C>>,
    {
        if FOLD_MODE.with(|f| f.get()) {
            let mut buf: Vec<Pixel<C>> = Vec::new();
            let it = pixels.into_iter();
            let hint = it.size_hint();
            crate::dev::reach(1);
            it.for_each(|p| buf.push(p));
            crate::dev::note_hint("pixel stream passed to draw_iter", hint, buf.len() as u64, Some(buf.len() as u64));
            self.inner.e_draw_iter(&mut buf.into_iter())
        } else {
            self.inner.e_draw_iter(&mut pixels.into_iter())
        }
    }
    fn fill_contiguous<I>(&mut self, area: &Rectangle, colors: I) -> Result<(), SimError>
    where
        I: IntoIterator<Item = C>,
    {
        if FOLD_MODE.with(|f| f.get()) && COLOUR_FOLD.with(|f| f.get()) {
            let call = SHIM_FILLS.with(|f| f.replace(f.get() + 1));
            if call % 2 == 0 {
                // Mixed consumption (every other call): the first k colours are pulled with `next`,
                // the rest by internal iteration, into a buffer that is handed on. A stream that does
                // not end makes the run inconclusive (dev::abort_unbounded), never a violation here.
                let mut it = colors.into_iter();
                let hint = it.size_hint();
                let w = area.size.width as u64;
                let n = w * area.size.height as u64;
                let k = match (call / 2) % 4 {
                    0 => 1,
                    1 => w,
                    2 => 0,
                    _ => 2 * w,
                };
                let mut buf: Vec<C> = Vec::new();
                let mut ended = false;
                while (buf.len() as u64) < k {
                    match it.next() {
                        Some(c) => buf.push(c),
                        None => {
                            ended = true;
                            break;
                        }
                    }
                }
                if !ended {
                    crate::dev::reach(0);
                    it.for_each(|c| {
                        if buf.len() as u64 > n + crate::dev::UNBOUNDED_LIMIT {
                            crate::dev::abort_unbounded();
                        }
                        buf.push(c)
                    });
                }
                crate::dev::note_hint("colour stream passed to fill_contiguous", hint, buf.len() as u64, Some(buf.len() as u64));
                return self.inner.e_fill_contiguous(area, &mut buf.into_iter());
            }
        }
        self.inner.e_fill_contiguous(area, &mut colors.into_iter())
    }
    fn fill_solid(&mut self, area: &Rectangle, color: C) -> Result<(), SimError> {
        self.inner.e_fill_solid(area, color)
    }
    fn clear(&mut self, color: C) -> Result<(), SimError> {
        self.inner.e_clear(color)
    }
}

/// One adapter layer, listed from the device upwards.
#[derive(Clone, Copy, Debug, PartialEq, Eq, Hash)]
pub enum Ad {
    Clipped([i32; 4]),
    Cropped([i32; 4]),
    Translated([i32; 2]),
    ColorConverted,
}

pub fn rect_of(a: &[i32; 4]) -> Rectangle {
    Rectangle::new(
        Point::new(a[0], a[1]),
        Size::new(a[2].max(0) as u32, a[3].max(0) as u32),
    )
}

impl Ad {
    pub fn to_json(&self) -> J {
        match self {
            Ad::Clipped(a) => J::obj().set("clipped", J::ints(&a[..])),
            Ad::Cropped(a) => J::obj().set("cropped", J::ints(&a[..])),
            Ad::Translated(o) => J::obj().set("translated", J::ints(&o[..])),
            Ad::ColorConverted => J::s("color_converted"),
        }
    }
    pub fn hash(&self, h: &mut crate::rng::Hash64) {
        match self {
            Ad::Clipped(a) => {
                h.u32(1);
                for v in a {
                    h.i32(*v);
                }
            }
            Ad::Cropped(a) => {
                h.u32(2);
                for v in a {
                    h.i32(*v);
                }
            }
            Ad::Translated(a) => {
                h.u32(3);
                for v in a {
                    h.i32(*v);
                }
            }
            Ad::ColorConverted => h.u32(4),
        }
    }
    pub fn kind_index(&self) -> u32 {
        match self {
            Ad::Clipped(_) => 0,
            Ad::Cropped(_) => 1,
            Ad::Translated(_) => 2,
            Ad::ColorConverted => 3,
        }
    }
}

/// Generic-method visitor: called at the top of the stack with the colour type found there.
pub trait Visitor {
    type Out;
    /// `boxes` collects `bounding_box()` of every layer from the device upwards (device first).
    fn visit<C: SimColor>(&mut self, top: &mut DynTarget<'_, C>, boxes: &[Rectangle]) -> Self::Out;
}

/// Build the real adapters of `stack` (device-first order) over `t` and call the visitor on top.
pub fn with_stack<C: SimColor, V: Visitor>(
    t: &mut DynTarget<'_, C>,
    stack: &[Ad],
    boxes: &mut Vec<Rectangle>,
    v: &mut V,
) -> V::Out {
    boxes.push(t.bounding_box());
    match stack.split_first() {
        None => v.visit(t, boxes),
        Some((Ad::Clipped(a), rest)) => {
            let mut ad = t.clipped(&rect_of(a));
            with_stack(&mut DynTarget::new(&mut ad), rest, boxes, v)
        }
        Some((Ad::Cropped(a), rest)) => {
            let mut ad = t.cropped(&rect_of(a));
            with_stack(&mut DynTarget::new(&mut ad), rest, boxes, v)
        }
        Some((Ad::Translated(o), rest)) => {
            let mut ad = t.translated(Point::new(o[0], o[1]));
            with_stack(&mut DynTarget::new(&mut ad), rest, boxes, v)
        }
        Some((Ad::ColorConverted, rest)) => {
            let mut ad = t.color_converted::<C::Down>();
            with_stack::<C::Down, V>(&mut DynTarget::new(&mut ad), rest, boxes, v)
        }
    }
}

/// Presents a target whose error type is `Infallible` (Framebuffer, MockDisplay) with the
/// simulator's error type. All four methods are forwarded, so a target that only implements
/// `draw_iter` still runs its own (trait default) fill methods.
pub struct InfallibleTarget<'a, F>(pub &'a mut F);

impl<F: DrawTarget<Error = core::convert::Infallible>> Dimensions for InfallibleTarget<'_, F> {
    fn bounding_box(&self) -> Rectangle {
        self.0.bounding_box()
    }
}

impl<C: SimColor, F: DrawTarget<Color = C, Error = core::convert::Infallible>> DrawTarget for InfallibleTarget<'_, F> {
    type Color = C;
    type Error = SimError;
    fn draw_iter<I: IntoIterator<Item = Pixel<C>>>(&mut self, pixels: I) -> Result<(), SimError> {
        self.0.draw_iter(pixels).map_err(|e| match e {})
    }
    fn fill_contiguous<I: IntoIterator<Item = C>>(&mut self, area: &Rectangle, colors: I) -> Result<(), SimError> {
        self.0.fill_contiguous(area, colors).map_err(|e| match e {})
    }
    fn fill_solid(&mut self, area: &Rectangle, color: C) -> Result<(), SimError> {
        self.0.fill_solid(area, color).map_err(|e| match e {})
    }
    fn clear(&mut self, color: C) -> Result<(), SimError> {
        self.0.clear(color).map_err(|e| match e {})
    }
}
