//! Shared scenario pieces: device configuration, device boxes, adapter stacks, rectangles drawn
//! relative to the box they will meet.

use crate::dev::{caps_name, ColorKind, Discipline, DISCIPLINES};
use crate::erased::Ad;
use crate::json::J;
use crate::model::{StackModel, R};
use crate::rng::Src;

#[derive(Clone, Debug, Hash, PartialEq, Eq)]
pub struct DevCfg {
    pub bbox: [i32; 4],
    pub caps: u8,
    pub disc: u8,
}

impl DevCfg {
    pub fn disc(&self) -> Discipline {
        DISCIPLINES[self.disc as usize]
    }
    pub fn rect(&self) -> embedded_graphics::primitives::Rectangle {
        crate::erased::rect_of(&self.bbox)
    }
    pub fn r(&self) -> R {
        R::xywh(self.bbox[0] as i64, self.bbox[1] as i64, self.bbox[2] as i64, self.bbox[3] as i64)
    }
    pub fn to_json(&self) -> J {
        J::obj()
            .set("bbox", J::ints(&self.bbox[..]))
            .set("caps", J::s(caps_name(self.caps)))
            .set("discipline", J::s(self.disc().name()))
    }
    /// index into the capability x discipline lattice (8 x 5 = 40 points)
    pub fn lattice(&self) -> u32 {
        self.caps as u32 * crate::dev::N_DISC + self.disc as u32
    }
}

/// A rectangle relative to box `b`: simple classes first.
pub fn gen_rect_rel(src: &mut Src, b: &R, scale: i32) -> [i32; 4] {
    if b.is_empty() {
        let x = src.sym(scale.min(16));
        let y = src.sym(scale.min(16));
        return [x, y, src.draw(12) as i32, src.draw(12) as i32];
    }
    let (bx, by, bw, bh) = (b.x0 as i32, b.y0 as i32, b.w() as i32, b.h() as i32);
    match src.draw(10) {
        // the box itself
        0 => [bx, by, bw, bh],
        // strictly inside
        1 | 2 => {
            let x = src.draw(bw as u32) as i32;
            let y = src.draw(bh as u32) as i32;
            let w = 1 + src.draw((bw - x) as u32) as i32;
            let h = 1 + src.draw((bh - y) as u32) as i32;
            [bx + x, by + y, w, h]
        }
        // straddling the left / top edge
        3 => {
            let dx = 1 + src.draw(4) as i32;
            let dy = src.draw(5) as i32;
            [bx - dx, by - dy, dx + 1 + src.draw(bw as u32) as i32, dy + 1 + src.draw(bh as u32) as i32]
        }
        // straddling the right / bottom edge
        4 => {
            let x = src.draw(bw as u32) as i32;
            let y = src.draw(bh as u32) as i32;
            [bx + x, by + y, bw - x + src.draw(5) as i32, bh - y + 1 + src.draw(4) as i32]
        }
        // containing the box
        5 => {
            let l = src.draw(4) as i32;
            let t = src.draw(4) as i32;
            [bx - l, by - t, bw + l + src.draw(4) as i32, bh + t + src.draw(4) as i32]
        }
        // straddling horizontally only (wider than the box, inside vertically)
        6 => {
            let y = src.draw(bh as u32) as i32;
            let h = 1 + src.draw((bh - y) as u32) as i32;
            let l = src.draw(4) as i32;
            [bx - l, by + y, bw + l + src.draw(4) as i32, h]
        }
        // disjoint
        7 => match src.draw(4) {
            0 => [bx + bw + src.draw(3) as i32, by + src.sym(2), 1 + src.draw(5) as i32, 1 + src.draw(5) as i32],
            1 => [bx - 6 - src.draw(3) as i32, by + src.sym(2), 1 + src.draw(5) as i32, 1 + src.draw(5) as i32],
            2 => [bx + src.sym(2), by + bh + src.draw(3) as i32, 1 + src.draw(5) as i32, 1 + src.draw(5) as i32],
            _ => [bx + src.sym(2), by - 6 - src.draw(3) as i32, 1 + src.draw(5) as i32, 1 + src.draw(5) as i32],
        },
        // zero width and/or height, positioned inside or outside
        8 => {
            let x = bx + src.draw(bw as u32 + 2) as i32 - 1;
            let y = by + src.draw(bh as u32 + 2) as i32 - 1;
            match src.draw(3) {
                0 => [x, y, 0, 0],
                1 => [x, y, src.draw(6) as i32, 0],
                _ => [x, y, 0, src.draw(6) as i32],
            }
        }
        // arbitrary
        _ => [
            bx + src.sym(scale.min(24)),
            by + src.sym(scale.min(24)),
            src.draw((bw + 8) as u32) as i32,
            src.draw((bh + 8) as u32) as i32,
        ],
    }
}

/// Small arbitrary device boxes, including empty and non-origin ones.
pub fn gen_small_box(src: &mut Src) -> [i32; 4] {
    match src.draw(16) {
        0 => [0, 0, 0, 0],
        1 => [src.sym(4), src.sym(4), src.draw(8) as i32, 0],
        2 => [src.sym(4), src.sym(4), 0, src.draw(8) as i32],
        3 => [src.sym(8), src.sym(8), 1, 1],
        4 | 5 | 6 => [0, 0, 1 + src.draw(40) as i32, 1 + src.draw(40) as i32],
        7 => [src.sym(8), src.sym(8), src.draw(41) as i32, src.draw(41) as i32],
        _ => [src.sym(8), src.sym(8), 1 + src.draw(40) as i32, 1 + src.draw(40) as i32],
    }
}

pub fn gen_caps_disc(src: &mut Src) -> (u8, u8) {
    (src.draw(8) as u8, src.draw(crate::dev::N_DISC) as u8)
}

/// A stack of 0..=max_depth adapters (device-first order). Areas are drawn relative to the box of
/// the layer they are applied to. `allow_cc` gates colour conversion (needs a convertible chain).
pub fn gen_stack(
    src: &mut Src,
    dev_box: &R,
    dev_kind: ColorKind,
    max_depth: u32,
    allow_cc: bool,
    scale: i32,
    avoid_empty_crop: bool,
    far_ok: bool,
) -> Vec<Ad> {
    let depth = src.draw(max_depth + 1);
    let mut stack: Vec<Ad> = Vec::new();
    let mut kind = dev_kind;
    for _ in 0..depth {
        let m = StackModel::new(*dev_box, dev_kind, &stack);
        let b = m.top_box();
        let can_cc = allow_cc && crate::dev::down_kind(kind) != kind;
        let choice = src.draw(if can_cc { 4 } else { 3 });
        let ad = match choice {
            0 => {
                // far translations only for the adapter property itself (C03): drawables are only
                // specified at display scale (their geometry overflows i32 around +-30000)
                if far_ok && src.draw(16) == 15 {
                    Ad::Translated([src.sym(40000), src.sym(40000)])
                } else {
                    Ad::Translated([src.sym(scale.min(20)), src.sym(scale.min(20))])
                }
            }
            1 => Ad::Clipped(gen_rect_rel(src, &b, scale)),
            2 => {
                let mut a = gen_rect_rel(src, &b, scale);
                if avoid_empty_crop {
                    let ra = R::xywh(a[0] as i64, a[1] as i64, a[2] as i64, a[3] as i64);
                    if ra.intersect(&b).is_empty() && !b.is_empty() {
                        a = [b.x0 as i32, b.y0 as i32, b.w() as i32, b.h() as i32];
                    }
                }
                Ad::Cropped(a)
            }
            _ => {
                kind = crate::dev::down_kind(kind);
                Ad::ColorConverted
            }
        };
        stack.push(ad);
    }
    stack
}

pub fn stack_json(stack: &[Ad]) -> J {
    J::Arr(stack.iter().map(|a| a.to_json()).collect())
}

pub fn stack_shape_index(stack: &[Ad]) -> u32 {
    // 0..=3 layers over 4 kinds: 1 + 4 + 16 + 64 = 85 shapes
    let mut idx = 0u32;
    let mut base = 0u32;
    let mut pow = 1u32;
    for (i, a) in stack.iter().enumerate() {
        idx += a.kind_index() * pow;
        pow *= 4;
        base += 4u32.pow(i as u32);
    }
    base + idx
}
pub const STACK_SHAPES: u32 = 85;
