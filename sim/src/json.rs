//! Minimal JSON value, writer and parser (std only; ordered objects so output is deterministic).

use std::fmt::Write;

#[derive(Clone, Debug, PartialEq)]
pub enum J {
    Null,
    Bool(bool),
    Int(i64),
    Num(f64),
    Str(String),
    Arr(Vec<J>),
    Obj(Vec<(String, J)>),
}

impl J {
    pub fn obj() -> J {
        J::Obj(Vec::new())
    }
    pub fn s<S: Into<String>>(s: S) -> J {
        J::Str(s.into())
    }
    pub fn i<T: Into<i64>>(v: T) -> J {
        J::Int(v.into())
    }
    pub fn u(v: u64) -> J {
        J::Int(v as i64)
    }
    pub fn arr<I: IntoIterator<Item = J>>(it: I) -> J {
        J::Arr(it.into_iter().collect())
    }
    pub fn ints<T: Copy + Into<i64>>(xs: &[T]) -> J {
        J::Arr(xs.iter().map(|x| J::Int((*x).into())).collect())
    }
    pub fn set<S: Into<String>>(mut self, k: S, v: J) -> J {
        if let J::Obj(ref mut m) = self {
            m.push((k.into(), v));
        }
        self
    }
    pub fn put<S: Into<String>>(&mut self, k: S, v: J) {
        if let J::Obj(ref mut m) = self {
            m.push((k.into(), v));
        }
    }
    pub fn get(&self, k: &str) -> Option<&J> {
        match self {
            J::Obj(m) => m.iter().find(|(kk, _)| kk == k).map(|(_, v)| v),
            _ => None,
        }
    }
    pub fn as_str(&self) -> Option<&str> {
        match self {
            J::Str(s) => Some(s),
            _ => None,
        }
    }
    pub fn as_i64(&self) -> Option<i64> {
        match self {
            J::Int(i) => Some(*i),
            J::Num(f) => Some(*f as i64),
            _ => None,
        }
    }
    pub fn as_arr(&self) -> Option<&Vec<J>> {
        match self {
            J::Arr(a) => Some(a),
            _ => None,
        }
    }
    pub fn as_obj(&self) -> Option<&Vec<(String, J)>> {
        match self {
            J::Obj(a) => Some(a),
            _ => None,
        }
    }

    pub fn to_string(&self) -> String {
        let mut s = String::new();
        self.write(&mut s, None, 0);
        s
    }
    pub fn pretty(&self) -> String {
        let mut s = String::new();
        self.write(&mut s, Some(1), 0);
        s.push('\n');
        s
    }

    fn write(&self, out: &mut String, indent: Option<usize>, level: usize) {
        match self {
            J::Null => out.push_str("null"),
            J::Bool(b) => out.push_str(if *b { "true" } else { "false" }),
            J::Int(i) => {
                let _ = write!(out, "{}", i);
            }
            J::Num(f) => {
                if f.is_finite() {
                    let t = format!("{}", f);
                    out.push_str(&t);
                    if !t.contains('.') && !t.contains('e') {
                        out.push_str(".0");
                    }
                } else {
                    out.push_str("null");
                }
            }
            J::Str(s) => write_str(out, s),
            J::Arr(a) => {
                // arrays of scalars stay on one line
                let scalar = a
                    .iter()
                    .all(|x| !matches!(x, J::Arr(_) | J::Obj(_)));
                out.push('[');
                for (i, x) in a.iter().enumerate() {
                    if i > 0 {
                        out.push(',');
                        if scalar && indent.is_some() {
                            out.push(' ');
                        }
                    }
                    if !scalar {
                        nl(out, indent, level + 1);
                    }
                    x.write(out, indent, level + 1);
                }
                if !scalar && !a.is_empty() {
                    nl(out, indent, level);
                }
                out.push(']');
            }
            J::Obj(m) => {
                out.push('{');
                for (i, (k, v)) in m.iter().enumerate() {
                    if i > 0 {
                        out.push(',');
                    }
                    nl(out, indent, level + 1);
                    write_str(out, k);
                    out.push(':');
                    if indent.is_some() {
                        out.push(' ');
                    }
                    v.write(out, indent, level + 1);
                }
                if !m.is_empty() {
                    nl(out, indent, level);
                }
                out.push('}');
            }
        }
    }
}

fn nl(out: &mut String, indent: Option<usize>, level: usize) {
    if let Some(n) = indent {
        out.push('\n');
        for _ in 0..n * level {
            out.push(' ');
        }
    }
}

fn write_str(out: &mut String, s: &str) {
    out.push('"');
    for c in s.chars() {
        match c {
            '"' => out.push_str("\\\""),
            '\\' => out.push_str("\\\\"),
            '\n' => out.push_str("\\n"),
            '\r' => out.push_str("\\r"),
            '\t' => out.push_str("\\t"),
            c if (c as u32) < 0x20 => {
                let _ = write!(out, "\\u{:04x}", c as u32);
            }
            c => out.push(c),
        }
    }
    out.push('"');
}

pub fn parse(s: &str) -> Result<J, String> {
    let b = s.as_bytes();
    let mut p = 0usize;
    let v = parse_value(b, &mut p)?;
    skip_ws(b, &mut p);
    if p != b.len() {
        return Err(format!("trailing data at byte {}", p));
    }
    Ok(v)
}

fn skip_ws(b: &[u8], p: &mut usize) {
    while *p < b.len() && (b[*p] == b' ' || b[*p] == b'\n' || b[*p] == b'\r' || b[*p] == b'\t') {
        *p += 1;
    }
}

fn parse_value(b: &[u8], p: &mut usize) -> Result<J, String> {
    skip_ws(b, p);
    if *p >= b.len() {
        return Err("unexpected end".into());
    }
    match b[*p] {
        b'{' => {
            *p += 1;
            let mut m = Vec::new();
            skip_ws(b, p);
            if *p < b.len() && b[*p] == b'}' {
                *p += 1;
                return Ok(J::Obj(m));
            }
            loop {
                skip_ws(b, p);
                let k = match parse_value(b, p)? {
                    J::Str(s) => s,
                    _ => return Err("object key must be a string".into()),
                };
                skip_ws(b, p);
                if *p >= b.len() || b[*p] != b':' {
                    return Err(format!("expected ':' at {}", p));
                }
                *p += 1;
                let v = parse_value(b, p)?;
                m.push((k, v));
                skip_ws(b, p);
                if *p < b.len() && b[*p] == b',' {
                    *p += 1;
                    continue;
                }
                if *p < b.len() && b[*p] == b'}' {
                    *p += 1;
                    return Ok(J::Obj(m));
                }
                return Err(format!("expected ',' or '}}' at {}", p));
            }
        }
        b'[' => {
            *p += 1;
            let mut a = Vec::new();
            skip_ws(b, p);
            if *p < b.len() && b[*p] == b']' {
                *p += 1;
                return Ok(J::Arr(a));
            }
            loop {
                a.push(parse_value(b, p)?);
                skip_ws(b, p);
                if *p < b.len() && b[*p] == b',' {
                    *p += 1;
                    continue;
                }
                if *p < b.len() && b[*p] == b']' {
                    *p += 1;
                    return Ok(J::Arr(a));
                }
                return Err(format!("expected ',' or ']' at {}", p));
            }
        }
        b'"' => {
            *p += 1;
            let mut out = String::new();
            loop {
                if *p >= b.len() {
                    return Err("unterminated string".into());
                }
                let c = b[*p];
                *p += 1;
                match c {
                    b'"' => return Ok(J::Str(out)),
                    b'\\' => {
                        if *p >= b.len() {
                            return Err("bad escape".into());
                        }
                        let e = b[*p];
                        *p += 1;
                        match e {
                            b'n' => out.push('\n'),
                            b'r' => out.push('\r'),
                            b't' => out.push('\t'),
                            b'b' => out.push('\u{8}'),
                            b'f' => out.push('\u{c}'),
                            b'u' => {
                                if *p + 4 > b.len() {
                                    return Err("bad \\u".into());
                                }
                                let h = std::str::from_utf8(&b[*p..*p + 4])
                                    .map_err(|e| e.to_string())?;
                                let v = u32::from_str_radix(h, 16).map_err(|e| e.to_string())?;
                                *p += 4;
                                out.push(char::from_u32(v).unwrap_or('\u{fffd}'));
                            }
                            other => out.push(other as char),
                        }
                    }
                    _ => {
                        // copy a full utf-8 sequence
                        let start = *p - 1;
                        let len = if c < 0x80 {
                            1
                        } else if c >> 5 == 0b110 {
                            2
                        } else if c >> 4 == 0b1110 {
                            3
                        } else {
                            4
                        };
                        let end = (start + len).min(b.len());
                        out.push_str(
                            std::str::from_utf8(&b[start..end]).map_err(|e| e.to_string())?,
                        );
                        *p = end;
                    }
                }
            }
        }
        b't' if b[*p..].starts_with(b"true") => {
            *p += 4;
            Ok(J::Bool(true))
        }
        b'f' if b[*p..].starts_with(b"false") => {
            *p += 5;
            Ok(J::Bool(false))
        }
        b'n' if b[*p..].starts_with(b"null") => {
            *p += 4;
            Ok(J::Null)
        }
        _ => {
            let start = *p;
            let mut is_float = false;
            while *p < b.len()
                && (b[*p].is_ascii_digit()
                    || b[*p] == b'-'
                    || b[*p] == b'+'
                    || b[*p] == b'.'
                    || b[*p] == b'e'
                    || b[*p] == b'E')
            {
                if b[*p] == b'.' || b[*p] == b'e' || b[*p] == b'E' {
                    is_float = true;
                }
                *p += 1;
            }
            let t = std::str::from_utf8(&b[start..*p]).map_err(|e| e.to_string())?;
            if t.is_empty() {
                return Err(format!("unexpected byte {:?} at {}", b[start] as char, start));
            }
            if is_float {
                t.parse::<f64>().map(J::Num).map_err(|e| e.to_string())
            } else {
                match t.parse::<i64>() {
                    Ok(i) => Ok(J::Int(i)),
                    Err(_) => t.parse::<f64>().map(J::Num).map_err(|e| e.to_string()),
                }
            }
        }
    }
}
