//! The simulated application: seeded drawables (all built-in kinds) drawn onto whatever target
//! the property under check puts in front of them. Specs are plain data (decoded from the choice
//! tape before any library code runs) and are turned into real library objects at execution time.

use crate::dev::{SimColor, SimError};
use crate::json::J;
use crate::rng::Src;
use embedded_graphics::geometry::{Angle, AnchorPoint};
use embedded_graphics::image::{GetPixel, Image, ImageDrawable, ImageDrawableExt, ImageRaw};
use embedded_graphics::mono_font::mapping::StrGlyphMapping;
use embedded_graphics::mono_font::{
    ascii, iso_8859_1, iso_8859_5, jis_x0201, DecorationDimensions, MonoFont, MonoTextStyle,
    MonoTextStyleBuilder,
};
use embedded_graphics::prelude::*;
use embedded_graphics::primitives::{
    Arc, Circle, CornerRadii, Ellipse, Line, Polyline, PrimitiveStyle, PrimitiveStyleBuilder,
    Rectangle, RoundedRectangle, Sector, StrokeAlignment, StrokeStyle, Triangle,
};
use embedded_graphics::text::renderer::TextRenderer;
use embedded_graphics::text::{Alignment, Baseline, LineHeight, Text, TextStyleBuilder};
use embedded_graphics::Pixel;

// ---------------------------------------------------------------- spec types

#[derive(Clone, Debug, Hash, PartialEq, Eq)]
pub struct StyleSpec {
    pub fill: Option<u32>,
    pub stroke: Option<u32>,
    pub width: u32,
    /// 0 inside, 1 center, 2 outside
    pub align: u8,
    pub dotted: bool,
}

#[derive(Clone, Debug, Hash, PartialEq, Eq)]
pub enum Shape {
    Rect { tl: [i32; 2], size: [u32; 2] },
    Circle { tl: [i32; 2], d: u32 },
    Ellipse { tl: [i32; 2], size: [u32; 2] },
    RRect { tl: [i32; 2], size: [u32; 2], radii: [[u32; 2]; 4] },
    Triangle { p: [[i32; 2]; 3] },
    Line { a: [i32; 2], b: [i32; 2] },
    /// angles in tenths of a degree
    Arc { tl: [i32; 2], d: u32, start: i32, sweep: i32 },
    Sector { tl: [i32; 2], d: u32, start: i32, sweep: i32 },
    Polyline { pts: Vec<[i32; 2]>, translate: [i32; 2] },
}

impl Shape {
    pub fn kind(&self) -> &'static str {
        match self {
            Shape::Rect { .. } => "rectangle",
            Shape::Circle { .. } => "circle",
            Shape::Ellipse { .. } => "ellipse",
            Shape::RRect { .. } => "rounded_rectangle",
            Shape::Triangle { .. } => "triangle",
            Shape::Line { .. } => "line",
            Shape::Arc { .. } => "arc",
            Shape::Sector { .. } => "sector",
            Shape::Polyline { .. } => "polyline",
        }
    }
    pub fn kind_index(&self) -> u32 {
        match self {
            Shape::Rect { .. } => 0,
            Shape::Circle { .. } => 1,
            Shape::Ellipse { .. } => 2,
            Shape::RRect { .. } => 3,
            Shape::Triangle { .. } => 4,
            Shape::Line { .. } => 5,
            Shape::Arc { .. } => 6,
            Shape::Sector { .. } => 7,
            Shape::Polyline { .. } => 8,
        }
    }
    /// smaller of the two extents (for "stroke wider than the shape" probes)
    pub fn min_extent(&self) -> u32 {
        match self {
            Shape::Rect { size, .. } | Shape::Ellipse { size, .. } | Shape::RRect { size, .. } => size[0].min(size[1]),
            Shape::Circle { d, .. } | Shape::Arc { d, .. } | Shape::Sector { d, .. } => *d,
            Shape::Triangle { p } => {
                let xs = p.iter().map(|q| q[0]);
                let ys = p.iter().map(|q| q[1]);
                let w = xs.clone().max().unwrap() - xs.min().unwrap();
                let h = ys.clone().max().unwrap() - ys.min().unwrap();
                w.min(h) as u32
            }
            _ => u32::MAX,
        }
    }
}

#[derive(Clone, Debug, Hash, PartialEq, Eq)]
pub enum Deco {
    None,
    TextColor,
    Custom(u32),
}

#[derive(Clone, Debug, Hash, PartialEq, Eq)]
pub enum TextEntry {
    /// `Text::with_text_style(..).draw(target)`
    TextDraw,
    /// `TextRenderer::draw_string`
    DrawString,
    /// `TextRenderer::draw_whitespace(width)`
    DrawWhitespace(u32),
}

#[derive(Clone, Debug, Hash, PartialEq, Eq)]
pub struct TextSpec {
    pub text: String,
    pub pos: [i32; 2],
    pub font: u8,
    pub text_color: Option<u32>,
    pub bg: Option<u32>,
    pub underline: Deco,
    pub strike: Deco,
    /// 0 left, 1 center, 2 right
    pub align: u8,
    /// 0 top, 1 bottom, 2 middle, 3 alphabetic
    pub baseline: u8,
    /// (is_percent, value)
    pub line_height: (bool, u32),
    pub entry: TextEntry,
}

#[derive(Clone, Debug, Hash, PartialEq, Eq)]
pub struct ImageSpec {
    pub w: u32,
    pub h: u32,
    pub be: bool,
    pub data: Vec<u8>,
    pub at: [i32; 2],
    pub center: bool,
    /// nested sub-image areas, outermost first (0..=2)
    pub subs: Vec<[i32; 4]>,
}

#[derive(Clone, Debug, Hash, PartialEq, Eq)]
pub enum DrawableSpec {
    Styled { shape: Shape, style: StyleSpec },
    Image(ImageSpec),
    Text(TextSpec),
    Pixel { p: [i32; 2], c: u32 },
    PixelIter { px: Vec<(i32, i32, u32)> },
}

impl DrawableSpec {
    pub fn kind(&self) -> &'static str {
        match self {
            DrawableSpec::Styled { shape, .. } => shape.kind(),
            DrawableSpec::Image(i) => {
                if i.subs.is_empty() {
                    "image"
                } else {
                    "sub_image"
                }
            }
            DrawableSpec::Text(t) => match t.entry {
                TextEntry::TextDraw => "text",
                TextEntry::DrawString => "draw_string",
                TextEntry::DrawWhitespace(_) => "draw_whitespace",
            },
            DrawableSpec::Pixel { .. } => "pixel",
            DrawableSpec::PixelIter { .. } => "pixel_iter",
        }
    }
    pub fn kind_index(&self) -> u32 {
        match self {
            DrawableSpec::Styled { shape, .. } => shape.kind_index(),
            DrawableSpec::Image(i) => {
                if i.subs.is_empty() {
                    9
                } else {
                    10
                }
            }
            DrawableSpec::Text(t) => match t.entry {
                TextEntry::TextDraw => 11,
                TextEntry::DrawString => 12,
                TextEntry::DrawWhitespace(_) => 13,
            },
            DrawableSpec::Pixel { .. } => 14,
            DrawableSpec::PixelIter { .. } => 15,
        }
    }
    pub const KINDS: u32 = 16;
    pub fn is_styled(&self) -> bool {
        matches!(self, DrawableSpec::Styled { .. })
    }
    pub fn to_json(&self) -> J {
        match self {
            DrawableSpec::Styled { shape, style } => J::obj()
                .set("kind", J::s(shape.kind()))
                .set("shape", J::s(format!("{:?}", shape)))
                .set(
                    "style",
                    J::obj()
                        .set("fill", style.fill.map(|c| J::Int(c as i64)).unwrap_or(J::Null))
                        .set("stroke", style.stroke.map(|c| J::Int(c as i64)).unwrap_or(J::Null))
                        .set("width", J::Int(style.width as i64))
                        .set("align", J::s(["inside", "center", "outside"][style.align as usize]))
                        .set("dotted", J::Bool(style.dotted)),
                ),
            DrawableSpec::Image(i) => J::obj()
                .set("kind", J::s(self.kind()))
                .set("size", J::ints(&[i.w as i64, i.h as i64]))
                .set("big_endian", J::Bool(i.be))
                .set("data", J::Arr(i.data.iter().map(|b| J::Int(*b as i64)).collect()))
                .set("at", J::ints(&i.at[..]))
                .set("with_center", J::Bool(i.center))
                .set("sub_images", J::Arr(i.subs.iter().map(|a| J::ints(&a[..])).collect())),
            DrawableSpec::Text(t) => J::obj()
                .set("kind", J::s(self.kind()))
                .set("text", J::s(t.text.clone()))
                .set("pos", J::ints(&t.pos[..]))
                .set("font", J::s(FONT_NAMES[t.font as usize]))
                .set("text_color", t.text_color.map(|c| J::Int(c as i64)).unwrap_or(J::Null))
                .set("background", t.bg.map(|c| J::Int(c as i64)).unwrap_or(J::Null))
                .set("underline", J::s(format!("{:?}", t.underline)))
                .set("strikethrough", J::s(format!("{:?}", t.strike)))
                .set("alignment", J::s(["left", "center", "right"][t.align as usize]))
                .set("baseline", J::s(["top", "bottom", "middle", "alphabetic"][t.baseline as usize]))
                .set(
                    "line_height",
                    J::s(if t.line_height.0 {
                        format!("{}%", t.line_height.1)
                    } else {
                        format!("{}px", t.line_height.1)
                    }),
                )
                .set("entry", J::s(format!("{:?}", t.entry))),
            DrawableSpec::Pixel { p, c } => J::obj()
                .set("kind", J::s("pixel"))
                .set("p", J::ints(&p[..]))
                .set("c", J::Int(*c as i64)),
            DrawableSpec::PixelIter { px } => J::obj().set("kind", J::s("pixel_iter")).set(
                "pixels",
                J::Arr(px.iter().map(|(x, y, c)| J::ints(&[*x as i64, *y as i64, *c as i64])).collect()),
            ),
        }
    }
}

// ---------------------------------------------------------------- fonts

const CUSTOM_FONT_DATA: [u8; 42] = [
    0b1010_1101, 0b0110_0111, 0b0101_0110, //
    0b0101_0010, 0b1001_1000, 0b1010_1000, //
    0b1110_0111, 0b0001_1100, 0b0111_0010, //
    0b0011_1001, 0b1100_0110, 0b1001_1100, //
    0b1100_0110, 0b0011_1001, 0b0110_0010, //
    0b0101_1010, 0b0101_1010, 0b1101_0110, //
    0b1001_0110, 0b1001_0110, 0b0010_1000, //
    0b0110_1001, 0b0110_1001, 0b1101_0100, //
    0b1111_0000, 0b1111_0000, 0b0011_1110, //
    0b0000_1111, 0b0000_1111, 0b1100_0000, //
    0b1011_0111, 0b0111_1011, 0b0100_1010, //
    0b0100_1000, 0b1000_0100, 0b1011_0100, //
    0b1101_1011, 0b0110_1101, 0b0110_1100, //
    0b0010_0100, 0b1001_0010, 0b1001_0010, //
];

static CUSTOM_MAPPING: StrGlyphMapping<'static> = StrGlyphMapping::new("\0an", 13);

/// 3x7 glyphs, spacing 2, atlas 23 px wide (7 glyphs per row + 2 px left over), 2 glyph rows.
static CUSTOM_FONT: MonoFont<'static> = MonoFont {
    image: ImageRaw::new_const(&CUSTOM_FONT_DATA, Size::new(23, 14)),
    character_size: Size::new(3, 7),
    character_spacing: 2,
    baseline: 5,
    strikethrough: DecorationDimensions::new(3, 1),
    underline: DecorationDimensions::new(8, 2),
    glyph_mapping: &CUSTOM_MAPPING,
};

pub const FONT_NAMES: [&str; 8] = [
    "ascii::FONT_4X6",
    "ascii::FONT_6X10",
    "custom 3x7 spacing 2 (ragged atlas)",
    "ascii::FONT_9X15_BOLD",
    "iso_8859_1::FONT_5X8",
    "jis_x0201::FONT_6X13",
    "iso_8859_5::FONT_7X13_ITALIC",
    "ascii::FONT_10X20",
];

pub fn font(i: u8) -> &'static MonoFont<'static> {
    match i {
        0 => &ascii::FONT_4X6,
        1 => &ascii::FONT_6X10,
        2 => &CUSTOM_FONT,
        3 => &ascii::FONT_9X15_BOLD,
        4 => &iso_8859_1::FONT_5X8,
        5 => &jis_x0201::FONT_6X13,
        6 => &iso_8859_5::FONT_7X13_ITALIC,
        _ => &ascii::FONT_10X20,
    }
}

// ---------------------------------------------------------------- images

pub use crate::dev::ImageVisitor;

pub fn bytes_per_row(w: u32, bits: u32) -> usize {
    ((w as usize) * bits as usize + 7) / 8
}

struct DrawImage<'t, 's, T> {
    target: &'t mut T,
    spec: &'s ImageSpec,
}

fn rect4(a: &[i32; 4]) -> Rectangle {
    Rectangle::new(Point::new(a[0], a[1]), Size::new(a[2].max(0) as u32, a[3].max(0) as u32))
}

fn place<I: ImageDrawable, T: DrawTarget<Color = I::Color, Error = SimError>>(
    img: &I,
    spec: &ImageSpec,
    target: &mut T,
) -> Result<(), SimError> {
    let p = Point::new(spec.at[0], spec.at[1]);
    // How the offset is arrived at is derived from the spec (no tape draw, old replay files keep
    // their meaning): directly, or by constructing the image elsewhere and moving it with
    // `Transform::translate` / `translate_mut` (an `Image` at offset o is an `Image` at offset o).
    let how = (spec.at[0] as i64 * 3 + spec.at[1] as i64 * 5 + spec.w as i64 + spec.h as i64 * 7).rem_euclid(4);
    let d = Point::new((spec.w % 7) as i32 - 3, (spec.h % 5) as i32 - 2);
    let build = |at: Point| if spec.center { Image::with_center(img, at) } else { Image::new(img, at) };
    match how {
        2 => build(p - d).translate(d).draw(target),
        3 => {
            let mut im = build(p - d);
            im.translate_mut(d).translate_mut(Point::zero());
            im.draw(target)
        }
        _ => build(p).draw(target),
    }
}

impl<C: SimColor, T: DrawTarget<Color = C, Error = SimError>> ImageVisitor<C> for DrawImage<'_, '_, T> {
    type Out = Result<(), SimError>;
    fn visit<I: ImageDrawable<Color = C> + GetPixel<Color = C>>(&mut self, img: &I) -> Self::Out {
        match self.spec.subs.len() {
            0 => place(img, self.spec, self.target),
            1 => {
                let s = img.sub_image(&rect4(&self.spec.subs[0]));
                place(&s, self.spec, self.target)
            }
            _ => {
                let s = img.sub_image(&rect4(&self.spec.subs[0]));
                let s2 = s.sub_image(&rect4(&self.spec.subs[1]));
                place(&s2, self.spec, self.target)
            }
        }
    }
}

// ---------------------------------------------------------------- building library objects

pub fn prim_style<C: SimColor>(s: &StyleSpec) -> PrimitiveStyle<C> {
    let mut b = PrimitiveStyleBuilder::new()
        .stroke_width(s.width)
        .stroke_alignment(match s.align {
            0 => StrokeAlignment::Inside,
            1 => StrokeAlignment::Center,
            _ => StrokeAlignment::Outside,
        });
    if let Some(c) = s.fill {
        b = b.fill_color(C::from_u32(c));
    }
    if let Some(c) = s.stroke {
        b = b.stroke_color(C::from_u32(c));
    }
    if s.dotted {
        b = b.stroke_style(StrokeStyle::Dotted);
    }
    b.build()
}

fn pt(a: &[i32; 2]) -> Point {
    Point::new(a[0], a[1])
}
fn sz(a: &[u32; 2]) -> Size {
    Size::new(a[0], a[1])
}
fn deg(t: i32) -> Angle {
    Angle::from_degrees(t as f32 / 10.0)
}

fn rrect(tl: &[i32; 2], size: &[u32; 2], radii: &[[u32; 2]; 4]) -> RoundedRectangle {
    RoundedRectangle::new(
        Rectangle::new(pt(tl), sz(size)),
        CornerRadii {
            top_left: sz(&radii[0]),
            top_right: sz(&radii[1]),
            bottom_right: sz(&radii[2]),
            bottom_left: sz(&radii[3]),
        },
    )
}

/// How a styled primitive is rendered.
#[derive(Clone, Copy, PartialEq, Eq, Debug)]
pub enum Path {
    /// `styled.draw(target)`
    Draw,
    /// `target.draw_iter(styled.pixels())`
    Pixels,
}

macro_rules! render {
    ($prim:expr, $style:expr, $path:expr, $target:expr) => {{
        let styled = $prim.into_styled($style);
        match $path {
            Path::Draw => styled.draw($target),
            Path::Pixels => $target.draw_iter(styled.pixels()),
        }
    }};
}

pub fn draw_styled<C: SimColor, T: DrawTarget<Color = C, Error = SimError>>(
    shape: &Shape,
    style: &StyleSpec,
    path: Path,
    target: &mut T,
) -> Result<(), SimError> {
    let st: PrimitiveStyle<C> = prim_style(style);
    match shape {
        Shape::Rect { tl, size } => render!(Rectangle::new(pt(tl), sz(size)), st, path, target),
        Shape::Circle { tl, d } => render!(Circle::new(pt(tl), *d), st, path, target),
        Shape::Ellipse { tl, size } => render!(Ellipse::new(pt(tl), sz(size)), st, path, target),
        Shape::RRect { tl, size, radii } => render!(rrect(tl, size, radii), st, path, target),
        Shape::Triangle { p } => render!(Triangle::new(pt(&p[0]), pt(&p[1]), pt(&p[2])), st, path, target),
        Shape::Line { a, b } => render!(Line::new(pt(a), pt(b)), st, path, target),
        Shape::Arc { tl, d, start, sweep } => render!(Arc::new(pt(tl), *d, deg(*start), deg(*sweep)), st, path, target),
        Shape::Sector { tl, d, start, sweep } => {
            render!(Sector::new(pt(tl), *d, deg(*start), deg(*sweep)), st, path, target)
        }
        Shape::Polyline { pts, translate } => {
            let v: Vec<Point> = pts.iter().map(pt).collect();
            let pl = Polyline::new(&v).translate(pt(translate));
            render!(pl, st, path, target)
        }
    }
}

pub fn text_style<C: SimColor>(t: &TextSpec) -> MonoTextStyle<'static, C> {
    let mut b = MonoTextStyleBuilder::<C>::new().font(font(t.font));
    if let Some(c) = t.text_color {
        b = b.text_color(C::from_u32(c));
    }
    if let Some(c) = t.bg {
        b = b.background_color(C::from_u32(c));
    }
    b = match t.underline {
        Deco::None => b,
        Deco::TextColor => b.underline(),
        Deco::Custom(c) => b.underline_with_color(C::from_u32(c)),
    };
    b = match t.strike {
        Deco::None => b,
        Deco::TextColor => b.strikethrough(),
        Deco::Custom(c) => b.strikethrough_with_color(C::from_u32(c)),
    };
    b.build()
}

pub fn baseline(b: u8) -> Baseline {
    match b {
        0 => Baseline::Top,
        1 => Baseline::Bottom,
        2 => Baseline::Middle,
        _ => Baseline::Alphabetic,
    }
}

/// Draw a drawable spec; `path` only matters for styled primitives.
/// Returns the `Output` of text drawables (next position) for information.
pub fn draw_spec<C: SimColor, T: DrawTarget<Color = C, Error = SimError>>(
    spec: &DrawableSpec,
    path: Path,
    target: &mut T,
) -> Result<Option<[i32; 2]>, SimError> {
    match spec {
        DrawableSpec::Styled { shape, style } => draw_styled::<C, T>(shape, style, path, target).map(|_| None),
        DrawableSpec::Image(i) => {
            let mut v = DrawImage { target, spec: i };
            match C::with_image(&i.data, i.w, i.h, i.be, &mut v) {
                Some(r) => r.map(|_| None),
                None => Ok(None),
            }
        }
        DrawableSpec::Text(t) => {
            let cs: MonoTextStyle<'static, C> = text_style(t);
            let pos = pt(&t.pos);
            let r = match t.entry {
                TextEntry::TextDraw => {
                    let ts = TextStyleBuilder::new()
                        .alignment(match t.align {
                            0 => Alignment::Left,
                            1 => Alignment::Center,
                            _ => Alignment::Right,
                        })
                        .baseline(baseline(t.baseline))
                        .line_height(if t.line_height.0 {
                            LineHeight::Percent(t.line_height.1)
                        } else {
                            LineHeight::Pixels(t.line_height.1)
                        })
                        .build();
                    Text::with_text_style(&t.text, pos, cs, ts).draw(target)
                }
                TextEntry::DrawString => cs.draw_string(&t.text, pos, baseline(t.baseline), target),
                TextEntry::DrawWhitespace(w) => cs.draw_whitespace(w, pos, baseline(t.baseline), target),
            };
            r.map(|p| Some([p.x, p.y]))
        }
        DrawableSpec::Pixel { p, c } => Pixel(pt(p), C::from_u32(*c)).draw(target).map(|_| None),
        DrawableSpec::PixelIter { px } => px
            .iter()
            .map(|(x, y, c)| Pixel(Point::new(*x, *y), C::from_u32(*c)))
            .draw(target)
            .map(|_| None),
    }
}

// ---------------------------------------------------------------- generators

#[derive(Clone, Debug)]
pub struct Knobs {
    pub scale: i32,
    pub max_width: u32,
    pub allow_dotted: bool,
    pub allow_pixel_kinds: bool,
    pub allow_renderer_entries: bool,
    /// enabled drawable kinds (indices into KIND_MENU)
    pub kinds: Vec<u8>,
    pub color_mask: u32,
    /// positions are drawn around this point (the region of the target the drawable should meet)
    pub origin: [i32; 2],
}

impl Knobs {
    /// Aim the drawable at a box (top layer's coordinates): positions are drawn around its
    /// top-left corner and the scale is reduced for small boxes, so that most drawings meet it.
    pub fn aim_at(&mut self, b: &crate::model::R) {
        if b.is_empty() {
            return;
        }
        if b.w() <= 48 && b.h() <= 48 {
            self.origin = [b.x0 as i32, b.y0 as i32];
            let m = b.w().max(b.h()) as i32;
            self.scale = self.scale.min(m.max(4));
        } else if b.x0 > 0 || b.y0 > 0 || b.x1 < 0 || b.y1 < 0 {
            // a large box that does not contain the origin
            self.origin = [(b.x0 + b.w() / 3) as i32, (b.y0 + b.h() / 3) as i32];
        }
    }
}

/// 0 rect 1 circle 2 ellipse 3 rrect 4 triangle 5 line 6 arc 7 sector 8 polyline 9 image 10 sub-image 11 text 12 pixel 13 pixel-iter
const KIND_COUNT: u8 = 14;

pub fn gen_knobs(src: &mut Src, color_mask: u32, c04: bool) -> Knobs {
    let scale = [8, 24, 64][src.draw(3) as usize];
    let max_width = [2u32, 5, 12, 40][src.draw(4) as usize];
    // swarm: a random non-empty subset of kinds (or all)
    let mut kinds: Vec<u8> = Vec::new();
    let n_kinds = if c04 { KIND_COUNT } else { 12 };
    if src.draw(3) == 0 {
        kinds = (0..n_kinds).collect();
    } else {
        for k in 0..n_kinds {
            if src.draw(3) == 0 {
                kinds.push(k);
            }
        }
        if kinds.is_empty() {
            kinds.push(src.draw(n_kinds as u32) as u8);
        }
    }
    Knobs {
        scale,
        max_width,
        allow_dotted: c04,
        allow_pixel_kinds: c04,
        allow_renderer_entries: c04,
        kinds,
        color_mask,
        origin: [0, 0],
    }
}

pub fn coord(src: &mut Src, k: &Knobs) -> i32 {
    match src.draw(6) {
        0 => 0,
        1 => src.sym(2),
        _ => src.sym(k.scale),
    }
}

pub fn pos(src: &mut Src, k: &Knobs) -> [i32; 2] {
    [k.origin[0] + coord(src, k), k.origin[1] + coord(src, k)]
}

pub fn size1(src: &mut Src, k: &Knobs) -> u32 {
    match src.draw(6) {
        0 => src.draw(3),
        1 => 3 + src.draw(4),
        _ => src.draw(k.scale as u32 + 1),
    }
}

pub fn colour(src: &mut Src, k: &Knobs) -> u32 {
    if k.color_mask == 1 {
        src.draw(2)
    } else if k.color_mask <= 0xFFFF {
        src.draw(k.color_mask + 1)
    } else {
        src.u32_full() & k.color_mask
    }
}

fn gen_style(src: &mut Src, k: &Knobs, extent: u32, open_shape: bool) -> StyleSpec {
    let fill = if src.draw(4) != 0 { Some(colour(src, k)) } else { None };
    let stroke = if src.draw(if open_shape { 10 } else { 4 }) != 0 { Some(colour(src, k)) } else { None };
    // display-scale class: half of the strokes are thick (48..=140), so that thick x long strokes —
    // where 32-bit intermediate products are at risk — are frequent there
    if k.scale >= 300 && src.bool() {
        return StyleSpec {
            fill,
            stroke: Some(colour(src, k)),
            width: 48 + src.draw(93),
            align: src.draw(3) as u8,
            dotted: false,
        };
    }
    let width = match src.draw(if open_shape { 16 } else { 8 }) {
        0 => 0,
        8..=11 => 1,
        12 | 13 => 2,
        14 => 3,
        15 => 4 + src.draw(4),
        1 | 2 => 1,
        3 => 2,
        4 => 3,
        5 => {
            // around the size of the shape: fill area collapses
            let e = extent.min(280) as i32;
            (e / 2 + src.sym(2)).max(0) as u32
        }
        6 => {
            let e = extent.min(280) as i32;
            (e + src.sym(2)).max(0) as u32
        }
        _ => src.draw(k.max_width + 1),
    };
    let align = src.draw(3) as u8;
    let dotted = k.allow_dotted && !open_shape && src.draw(4) == 3;
    StyleSpec {
        fill,
        stroke,
        width,
        align,
        dotted,
    }
}

fn gen_angle(src: &mut Src) -> i32 {
    match src.draw(4) {
        0 => src.sym(8) * 450,
        1 => src.sym(24) * 150,
        2 => src.sym(400) * 10,
        _ => src.sym(4000),
    }
}

const TEXT_MENU: [&str; 14] = [
    "",
    "a",
    "ab",
    "Hi!",
    "abc\ndef",
    "a\n\nb",
    "x\n",
    "ab\r\ncd",
    "\n",
    "a\u{1F600}b",
    "\u{7}z",
    "hello world",
    "AbCdEfGhIjKl\nmn",
    "\u{e4}\u{f6}\u{fc}\u{a9}",
];

fn gen_text(src: &mut Src, k: &Knobs) -> TextSpec {
    let font_i = src.draw(8) as u8;
    let mut text: String = TEXT_MENU[src.draw(TEXT_MENU.len() as u32) as usize].to_string();
    // seeded substitution of one character
    if !text.is_empty() && src.draw(3) == 0 {
        let repl = ['a', 'n', 'X', ' ', '~', 'g', '\u{b5}', '\u{ff71}', '\u{416}', '0'][src.draw(10) as usize];
        let n = text.chars().count();
        let at = src.draw(n as u32) as usize;
        text = text
            .chars()
            .enumerate()
            .map(|(i, c)| if i == at && c != '\n' && c != '\r' { repl } else { c })
            .collect();
    }
    let text_color = if src.draw(4) != 0 { Some(colour(src, k)) } else { None };
    let bg = if src.draw(2) == 0 { None } else { Some(colour(src, k)) };
    let deco = |src: &mut Src, k: &Knobs| match src.draw(4) {
        0 | 1 => Deco::None,
        2 => Deco::TextColor,
        _ => Deco::Custom(colour(src, k)),
    };
    let underline = deco(src, k);
    let strike = deco(src, k);
    let align = src.draw(3) as u8;
    let baseline = src.draw(4) as u8;
    let line_height = match src.draw(4) {
        0 => (true, 100),
        1 => (false, src.draw(30)),
        2 => (true, src.draw(300)),
        _ => (false, font(font_i).character_size.height + src.draw(3)),
    };
    let entry = if k.allow_renderer_entries {
        match src.draw(4) {
            0 | 1 => TextEntry::TextDraw,
            2 => TextEntry::DrawString,
            _ => TextEntry::DrawWhitespace(src.draw(40)),
        }
    } else {
        TextEntry::TextDraw
    };
    TextSpec {
        text,
        pos: pos(src, k),
        font: font_i,
        text_color,
        bg,
        underline,
        strike,
        align,
        baseline,
        line_height,
        entry,
    }
}

/// Areas for sub-images relative to a w x h parent: inside / straddling / outside / zero-sized.
pub fn gen_sub_area(src: &mut Src, w: u32, h: u32) -> [i32; 4] {
    let (w, h) = (w as i32, h as i32);
    match src.draw(12) {
        0 => [0, 0, w, h],
        1 | 2 | 3 | 8 | 9 | 10 | 11 => {
            // inside
            let x = if w > 0 { src.draw(w as u32) as i32 } else { 0 };
            let y = if h > 0 { src.draw(h as u32) as i32 } else { 0 };
            let ww = if w - x > 0 { 1 + src.draw((w - x) as u32) as i32 } else { 0 };
            let hh = if h - y > 0 { 1 + src.draw((h - y) as u32) as i32 } else { 0 };
            [x, y, ww, hh]
        }
        4 | 5 => {
            // straddling an edge
            let x = src.sym(3) + if src.bool() { w - 1 } else { 0 };
            let y = src.sym(3) + if src.bool() { h - 1 } else { 0 };
            [x, y, src.draw(w as u32 + 3) as i32, src.draw(h as u32 + 3) as i32]
        }
        6 => {
            // outside or zero sized
            if src.bool() {
                [w + src.draw(3) as i32, src.sym(2), 1 + src.draw(4) as i32, 1 + src.draw(4) as i32]
            } else {
                [src.draw(w as u32 + 1) as i32, src.draw(h as u32 + 1) as i32, src.draw(2) as i32 * 3, 0]
            }
        }
        _ => [src.sym(4), src.sym(4), src.draw(w as u32 + 5) as i32, src.draw(h as u32 + 5) as i32],
    }
}

pub fn gen_image(src: &mut Src, k: &Knobs, bits: u32, with_subs: bool) -> ImageSpec {
    let ppb = if bits < 8 { 8 / bits } else { 1 };
    let huge = if crate::prop::deep() { src.draw(16) == 15 } else { src.draw(64) == 63 };
    let (w, h) = if huge {
        // rarely: rows longer than 255 pixels / bytes, more than 65535 pixels in total
        match src.draw(4) {
            0 => (255 + src.draw(3), 1 + src.draw(3)),
            1 => (300, 2),
            2 => (1 + src.draw(3), 255 + src.draw(3)),
            _ => (260, 253),
        }
    } else {
        let w = match src.draw(16) {
            0 => 0,
            1 | 2 => 1 + src.draw(2),
            3 | 4 | 5 => ppb + src.draw(3) - 1,
            6 | 7 => 2 * ppb + 1,
            _ => 1 + src.draw(20),
        };
        let h = match src.draw(16) {
            0 => 0,
            1 => 1,
            _ => 1 + src.draw(12),
        };
        (w, h)
    };
    let be = src.bool();
    let n = bytes_per_row(w, bits) * h as usize;
    let mut data = Vec::with_capacity(n);
    if n > 600 {
        // large buffers come from a formula seeded by two draws (keeps the tape short)
        let a = 1 + 2 * src.draw(128) as u32;
        let b = src.draw(256) as u32;
        let mut x = b;
        for i in 0..n {
            x = x.wrapping_mul(1664525).wrapping_add(1013904223 ^ a);
            data.push(((x >> 24) as u8) ^ (i as u8).wrapping_mul(a as u8));
        }
    } else {
        let mode = src.draw(4);
        for i in 0..n {
            data.push(match mode {
                0 => src.draw(256) as u8,
                1 => 0xFF,
                2 => (i as u8).wrapping_mul(37).wrapping_add(11),
                _ => src.draw(256) as u8,
            });
        }
    }
    let mut subs = Vec::new();
    if with_subs {
        let a = gen_sub_area(src, w, h);
        subs.push(a);
        if src.draw(3) == 2 {
            // the nested area is drawn relative to what the first one really selects
            let ra = crate::model::R::xywh(a[0] as i64, a[1] as i64, a[2].max(0) as i64, a[3].max(0) as i64)
                .intersect(&crate::model::R::xywh(0, 0, w as i64, h as i64));
            let (aw, ah) = if ra.is_empty() { (a[2].max(0) as u32, a[3].max(0) as u32) } else { (ra.w() as u32, ra.h() as u32) };
            subs.push(gen_sub_area(src, aw, ah));
        }
    }
    ImageSpec {
        w,
        h,
        be,
        data,
        at: pos(src, k),
        center: src.draw(4) == 3,
        subs,
    }
}

pub fn gen_drawable(src: &mut Src, k: &Knobs, color_bits: u32) -> DrawableSpec {
    let kind = k.kinds[src.draw(k.kinds.len() as u32) as usize];
    match kind {
        0 => {
            let size = [size1(src, k), size1(src, k)];
            let style = gen_style(src, k, size[0].min(size[1]), false);
            DrawableSpec::Styled {
                shape: Shape::Rect { tl: pos(src, k), size },
                style,
            }
        }
        1 => {
            let d = size1(src, k);
            let style = gen_style(src, k, d, false);
            DrawableSpec::Styled {
                shape: Shape::Circle { tl: pos(src, k), d },
                style,
            }
        }
        2 => {
            let size = [size1(src, k), size1(src, k)];
            let style = gen_style(src, k, size[0].min(size[1]), false);
            DrawableSpec::Styled {
                shape: Shape::Ellipse { tl: pos(src, k), size },
                style,
            }
        }
        3 => {
            let size = [size1(src, k), size1(src, k)];
            let mut radii = [[0u32; 2]; 4];
            match src.draw(4) {
                0 => {
                    let r = [src.draw(size[0] / 2 + 2), src.draw(size[1] / 2 + 2)];
                    radii = [r; 4];
                }
                1 => {
                    // oversized
                    let r = [size[0] + src.draw(4), size[1] + src.draw(4)];
                    radii = [r; 4];
                }
                2 => {
                    for r in radii.iter_mut() {
                        *r = [src.draw(size[0] + 2), src.draw(size[1] + 2)];
                    }
                }
                _ => {
                    for r in radii.iter_mut() {
                        *r = [src.draw(6), src.draw(6)];
                    }
                }
            }
            let style = gen_style(src, k, size[0].min(size[1]), false);
            DrawableSpec::Styled {
                shape: Shape::RRect {
                    tl: pos(src, k),
                    size,
                    radii,
                },
                style,
            }
        }
        4 => {
            let p = match src.draw(5) {
                0 => {
                    // colinear / degenerate
                    let a = pos(src, k);
                    let d = [src.sym(4), src.sym(4)];
                    let m = src.draw(6) as i32;
                    let n = src.sym(6);
                    [a, [a[0] + d[0] * m, a[1] + d[1] * m], [a[0] + d[0] * n, a[1] + d[1] * n]]
                }
                _ => [pos(src, k), pos(src, k), pos(src, k)],
            };
            let shape = Shape::Triangle { p };
            let style = gen_style(src, k, shape.min_extent(), false);
            DrawableSpec::Styled { shape, style }
        }
        5 => {
            let a = pos(src, k);
            let b = match src.draw(4) {
                0 => [a[0] + src.sym(3), a[1]],
                1 => [a[0], a[1] + src.sym(3)],
                _ => pos(src, k),
            };
            let style = gen_style(src, k, 8, true);
            DrawableSpec::Styled {
                shape: Shape::Line { a, b },
                style,
            }
        }
        6 | 7 => {
            let d = size1(src, k);
            let start = gen_angle(src);
            let sweep = gen_angle(src);
            let style = gen_style(src, k, d, kind == 6);
            let tl = pos(src, k);
            DrawableSpec::Styled {
                shape: if kind == 6 {
                    Shape::Arc { tl, d, start, sweep }
                } else {
                    Shape::Sector { tl, d, start, sweep }
                },
                style,
            }
        }
        8 => {
            let n = src.draw(7) as usize;
            let mut pts: Vec<[i32; 2]> = Vec::new();
            for i in 0..n {
                let p = match src.draw(6) {
                    0 if i > 0 => pts[i - 1],
                    1 if i > 1 => pts[i - 2],
                    _ => pos(src, k),
                };
                pts.push(p);
            }
            let translate = if src.draw(3) == 0 { [src.sym(9), src.sym(9)] } else { [0, 0] };
            let style = gen_style(src, k, 8, true);
            DrawableSpec::Styled {
                shape: Shape::Polyline { pts, translate },
                style,
            }
        }
        9 => DrawableSpec::Image(gen_image(src, k, color_bits, false)),
        10 => DrawableSpec::Image(gen_image(src, k, color_bits, true)),
        11 => DrawableSpec::Text(gen_text(src, k)),
        12 => DrawableSpec::Pixel {
            p: pos(src, k),
            c: colour(src, k),
        },
        _ => {
            let n = src.draw(9);
            let mut px = Vec::new();
            for _ in 0..n {
                let p = pos(src, k);
                px.push((p[0], p[1], colour(src, k)));
            }
            DrawableSpec::PixelIter { px }
        }
    }
}

/// Anchor used only to silence an unused import in some configurations.
#[allow(dead_code)]
fn _anchor() -> AnchorPoint {
    AnchorPoint::Center
}
