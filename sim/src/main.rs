//! egsim — deterministic simulation with fault injection for embedded-graphics' DrawTarget seam.
#![allow(dead_code)]

mod dev;
mod erased;
mod exec;
mod json;
mod model;
mod prop;
mod props;
mod rng;
mod runner;
mod scen;
mod workload;

use json::J;
use prop::{Property, Tier};
use runner::{BatchCfg, DEFAULT_SEED, EXIT_HARNESS};

pub fn components_json() -> J {
    J::obj()
        .set(
            "real",
            J::arr(
                [
                    "all drawables, styles and iterators of /repo (Styled<*>, Polyline, Image, SubImage, Text, MonoTextStyle, Pixel, pixel iterators)",
                    "target adapters Clipped, Cropped, Translated, ColorConverted, MonoFontDrawTarget and the DrawTarget default methods in embedded-graphics-core",
                    "Framebuffer, MockDisplay, ImageRaw, fonts and glyph mappings",
                ]
                .iter()
                .map(|s| J::s(*s)),
            ),
        )
        .set(
            "simulated",
            J::arr(
                [
                    "the display device at the bottom of the stack (SimDisplay: capabilities, stream consumption, geometry, faults, call log)",
                    "the application issuing operations (seeded workload)",
                    "the device error type (unique token per injected fault)",
                ]
                .iter()
                .map(|s| J::s(*s)),
            ),
        )
        .set(
            "stub",
            J::arr(["DynTarget: transparent 1:1 forwarding shim between adapter layers"].iter().map(|s| J::s(*s))),
        )
        .set(
            "oracle",
            J::arr(
                ["reference models written independently of /repo (set-theoretic raster semantics, raw image decoder, framebuffer map, mock-display map)"]
                    .iter()
                    .map(|s| J::s(*s)),
            ),
        )
}

pub const PROPERTY_IDS: &[&str] = &["C01", "C03", "C04", "C09", "C10", "C20"];

macro_rules! dispatch {
    ($id:expr, $f:ident, $($arg:expr),*) => {
        match $id {
            "C01" => $f(&props::c01::C01, $($arg),*),
            "C03" => $f(&props::c03::C03, $($arg),*),
            "C04" => $f(&props::c04::C04, $($arg),*),
            "C09" => $f(&props::c09::C09, $($arg),*),
            "C10" => $f(&props::c10::C10, $($arg),*),
            "C20" => $f(&props::c20::C20, $($arg),*),
            other => {
                eprintln!("unknown or unclaimed property '{}'; claimed: {:?}", other, PROPERTY_IDS);
                EXIT_HARNESS
            }
        }
    };
}

fn batch<P: Property>(p: &P, cfg: &BatchCfg) -> i32 {
    runner::run_batch(p, cfg)
}

fn replay<P: Property>(p: &P, j: &J, path: &str) -> i32 {
    runner::replay_file(p, j, path)
}

fn show<P: Property>(p: &P, seed: &u64, index: &u64) -> i32 {
    runner::set_quiet(true);
    let (out, tape) = runner::run_index(p, *seed, *index, &prop::Opts { describe: true });
    runner::set_quiet(false);
    match out {
        Err(e) => {
            eprintln!("harness error: {}", e);
            EXIT_HARNESS
        }
        Ok(o) => {
            println!("run {} seed {} tape_len {}", index, seed, tape.len());
            if let Some(d) = &o.desc {
                println!("scenario: {}", d.to_string());
            }
            for l in o.trace.iter().take(60) {
                println!("  {}", l);
            }
            println!(
                "nontrivial={} calls={} items={} skipped={:?} violation={:?}",
                o.nontrivial,
                o.calls,
                o.items,
                o.skipped,
                o.violation.map(|v| (v.class, v.message))
            );
            0
        }
    }
}

fn usage() -> i32 {
    eprintln!(
        "usage:\n  egsim check <property> [--tier quick|thorough] [--seed N] [--runs N] [--threads N] [--dump-hashes FILE] [--no-evidence]\n  egsim replay <file>\n  egsim show <property> <run index> [seed] [quick|thorough]\n  egsim list"
    );
    EXIT_HARNESS
}

fn main() {
    runner::install_panic_hook();
    let args: Vec<String> = std::env::args().skip(1).collect();
    let code = real_main(&args);
    std::process::exit(code);
}

fn real_main(args: &[String]) -> i32 {
    if args.is_empty() {
        return usage();
    }
    match args[0].as_str() {
        "list" => {
            for p in PROPERTY_IDS {
                println!("{}", p);
            }
            0
        }
        "check" => {
            if args.len() < 2 {
                return usage();
            }
            let id = args[1].as_str();
            let mut tier = match std::env::var("VERIF_TIER").ok().as_deref() {
                Some("thorough") => Tier::Thorough,
                _ => Tier::Quick,
            };
            let mut seed = std::env::var("VERIF_SEED")
                .ok()
                .and_then(|s| s.trim().parse::<i128>().ok())
                .map(|v| v as u64)
                .unwrap_or(DEFAULT_SEED);
            let mut runs = std::env::var("VERIF_RUNS").ok().and_then(|s| s.parse::<u64>().ok());
            let mut threads = std::thread::available_parallelism().map(|n| n.get()).unwrap_or(4).min(16);
            let mut dump = None;
            let mut write_evidence = true;
            let mut i = 2;
            while i < args.len() {
                let need = |i: usize| -> Option<&String> { args.get(i + 1) };
                match args[i].as_str() {
                    "--tier" => {
                        tier = match need(i).map(|s| s.as_str()) {
                            Some("quick") => Tier::Quick,
                            Some("thorough") => Tier::Thorough,
                            _ => return usage(),
                        };
                        i += 1;
                    }
                    "--seed" => {
                        seed = match need(i).and_then(|s| s.parse::<i128>().ok()) {
                            Some(v) => v as u64,
                            None => return usage(),
                        };
                        i += 1;
                    }
                    "--runs" => {
                        runs = match need(i).and_then(|s| s.parse::<u64>().ok()) {
                            Some(v) => Some(v),
                            None => return usage(),
                        };
                        i += 1;
                    }
                    "--threads" => {
                        threads = match need(i).and_then(|s| s.parse::<usize>().ok()) {
                            Some(v) if v >= 1 => v,
                            _ => return usage(),
                        };
                        i += 1;
                    }
                    "--dump-hashes" => {
                        dump = match need(i) {
                            Some(v) => Some(v.clone()),
                            None => return usage(),
                        };
                        i += 1;
                    }
                    "--no-evidence" => write_evidence = false,
                    _ => return usage(),
                }
                i += 1;
            }
            prop::set_deep(tier == Tier::Thorough);
            let cfg = BatchCfg {
                tier,
                master_seed: seed,
                runs_override: runs,
                threads,
                write_evidence,
                dump_hashes: dump,
                wall_cap_s: if tier == Tier::Quick { 600.0 } else { 6.0 * 3600.0 },
            };
            dispatch!(id, batch, &cfg)
        }
        "show" => {
            if args.len() < 3 {
                return usage();
            }
            let id = args[1].as_str();
            let index: u64 = args[2].parse().unwrap_or(0);
            let seed: u64 = args.get(3).and_then(|s| s.parse().ok()).unwrap_or(DEFAULT_SEED);
            prop::set_deep(args.get(4).map(|s| s.as_str()) == Some("thorough"));
            dispatch!(id, show, &seed, &index)
        }
        "replay" => {
            if args.len() < 2 {
                return usage();
            }
            let path = &args[1];
            let text = match std::fs::read_to_string(path) {
                Ok(t) => t,
                Err(e) => {
                    eprintln!("cannot read {}: {}", path, e);
                    return EXIT_HARNESS;
                }
            };
            let j = match json::parse(&text) {
                Ok(j) => j,
                Err(e) => {
                    eprintln!("cannot parse {}: {}", path, e);
                    return EXIT_HARNESS;
                }
            };
            let id = j.get("property").and_then(|p| p.as_str()).unwrap_or("").to_string();
            prop::set_deep(j.get("tier").and_then(|t| t.as_str()) == Some("thorough"));
            dispatch!(id.as_str(), replay, &j, path)
        }
        _ => usage(),
    }
}
