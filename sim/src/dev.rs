//! `SimDisplay<C>` — the simulated display device at the bottom of every adapter stack.
//!
//! It owns everything the `DrawTarget` contract leaves to a driver: which fill methods are native
//! (the others run the *real* trait defaults from embedded-graphics-core), how far a colour stream
//! is consumed, the geometry of the drawable area, and failures at call k / stream item j.
//! Its own loops are written on i64 half-open intervals and share no code with the library.

use crate::model::R;
use crate::rng::Hash64;
use embedded_graphics::image::{GetPixel, ImageDrawable, ImageRaw};
use embedded_graphics::pixelcolor::raw::{BigEndianLsb0, LittleEndianMsb0, RawData, RawU32};
use embedded_graphics::pixelcolor::{
    BinaryColor, Bgr555, Bgr565, Bgr888, Gray2, Gray4, Gray8, IntoStorage, PixelColor, Rgb332, Rgb444, Rgb555, Rgb565, Rgb888,
};
use embedded_graphics::prelude::*;
use embedded_graphics::primitives::Rectangle;
use embedded_graphics::Pixel;

// ---------------------------------------------------------------- colours

#[derive(Clone, Copy, PartialEq, Eq, Debug, Hash)]
pub enum ColorKind {
    Binary,
    Gray2,
    Gray4,
    Gray8,
    Rgb565,
    Rgb888,
    C32,
    // the remaining colour types with a MockDisplay character set (used by C20 only)
    Rgb332,
    Rgb444,
    Rgb555,
    Bgr555,
    Bgr565,
    Bgr888,
    /// harness-defined colour with a user-written `ColorMapping` (non-ASCII pattern characters)
    User8,
    /// harness-defined 2 bpp colour whose `From<RawU2>` is not total (raw value 3 is forbidden)
    User2,
    /// harness-defined colour whose `PartialEq` is coarser than its `Into<C32>` (C03 only)
    UserA,
}

impl ColorKind {
    pub fn name(self) -> &'static str {
        match self {
            ColorKind::Binary => "BinaryColor",
            ColorKind::Gray2 => "Gray2",
            ColorKind::Gray4 => "Gray4",
            ColorKind::Gray8 => "Gray8",
            ColorKind::Rgb565 => "Rgb565",
            ColorKind::Rgb888 => "Rgb888",
            ColorKind::C32 => "C32",
            ColorKind::Rgb332 => "Rgb332",
            ColorKind::Rgb444 => "Rgb444",
            ColorKind::Rgb555 => "Rgb555",
            ColorKind::Bgr555 => "Bgr555",
            ColorKind::Bgr565 => "Bgr565",
            ColorKind::Bgr888 => "Bgr888",
            ColorKind::User8 => "UserColor8",
            ColorKind::User2 => "UserColor2(partial)",
            ColorKind::UserA => "UserColorA(coarse ==)",
        }
    }
    pub fn bits(self) -> u32 {
        match self {
            ColorKind::Binary => 1,
            ColorKind::Gray2 | ColorKind::User2 => 2,
            ColorKind::Gray4 => 4,
            ColorKind::Gray8 => 8,
            ColorKind::Rgb565 => 16,
            ColorKind::Rgb888 => 24,
            ColorKind::C32 => 32,
            // number of used bits = range of the raw colour values (C20 draws no raw images of these)
            ColorKind::Rgb332 | ColorKind::User8 => 8,
            ColorKind::Rgb444 => 12,
            ColorKind::Rgb555 | ColorKind::Bgr555 => 15,
            ColorKind::Bgr565 => 16,
            // UserA: raw values below 2^24, i.e. "alpha" (the top byte) is always zero
            ColorKind::Bgr888 | ColorKind::UserA => 24,
        }
    }
    pub fn mask(self) -> u32 {
        if self.bits() == 32 {
            u32::MAX
        } else {
            (1u32 << self.bits()) - 1
        }
    }
}

/// Harness-defined 32-bit colour (the library has no built-in colour with a `RawU32`).
#[derive(Clone, Copy, PartialEq, Eq, Debug)]
pub struct C32(pub u32);

impl PixelColor for C32 {
    type Raw = RawU32;
}
impl From<RawU32> for C32 {
    fn from(r: RawU32) -> Self {
        C32(r.into_inner())
    }
}
impl From<C32> for RawU32 {
    fn from(c: C32) -> Self {
        RawU32::new(c.0)
    }
}

/// Harness-defined 8-bit colour standing for a colour type written by a user of the library, with
/// its own `ColorMapping` (props/c20.rs) whose pattern characters are not all ASCII.
#[derive(Clone, Copy, PartialEq, Eq, Debug)]
pub struct Cu8(pub u8);

impl PixelColor for Cu8 {
    type Raw = embedded_graphics::pixelcolor::raw::RawU8;
}
impl From<embedded_graphics::pixelcolor::raw::RawU8> for Cu8 {
    fn from(r: embedded_graphics::pixelcolor::raw::RawU8) -> Self {
        Cu8(r.into_inner())
    }
}
impl From<Cu8> for embedded_graphics::pixelcolor::raw::RawU8 {
    fn from(c: Cu8) -> Self {
        embedded_graphics::pixelcolor::raw::RawU8::new(c.0)
    }
}
impl From<Cu8> for Rgb888 {
    fn from(c: Cu8) -> Self {
        Rgb888::new(c.0, c.0 / 2, 255 - c.0)
    }
}

/// Harness-defined 2 bpp colour standing for a user's colour type whose conversion from raw data
/// is **not total**: a three-colour e-paper colour, raw value 3 does not exist and converting it
/// panics. Image data may hold that value wherever no pixel is read (row padding).
#[derive(Clone, Copy, PartialEq, Eq, Debug)]
pub struct Cu2(pub u8);

impl PixelColor for Cu2 {
    type Raw = embedded_graphics::pixelcolor::raw::RawU2;
}
impl From<embedded_graphics::pixelcolor::raw::RawU2> for Cu2 {
    fn from(r: embedded_graphics::pixelcolor::raw::RawU2) -> Self {
        match r.into_inner() {
            3 => panic!("UserColor2: raw value 3 is not a colour"),
            v => Cu2(v),
        }
    }
}
impl From<Cu2> for embedded_graphics::pixelcolor::raw::RawU2 {
    fn from(c: Cu2) -> Self {
        embedded_graphics::pixelcolor::raw::RawU2::new(c.0)
    }
}

/// Harness-defined colour standing for a user's colour type whose equality is **coarser than its
/// conversion**: an ARGB colour with premultiplied-alpha semantics — all fully transparent colours
/// (top byte zero) compare equal — whose `Into<C32>` nevertheless keeps every bit. "Maps every
/// colour through `Into`" must hold for it too: nothing may be concluded from `==`.
#[derive(Clone, Copy, Debug)]
pub struct CuA(pub u32);

impl PartialEq for CuA {
    fn eq(&self, o: &Self) -> bool {
        (self.0 >> 24 == 0 && o.0 >> 24 == 0) || self.0 == o.0
    }
}
impl PixelColor for CuA {
    type Raw = RawU32;
}
impl From<RawU32> for CuA {
    fn from(r: RawU32) -> Self {
        CuA(r.into_inner())
    }
}
impl From<CuA> for RawU32 {
    fn from(c: CuA) -> Self {
        RawU32::new(c.0)
    }
}
impl From<CuA> for C32 {
    fn from(c: CuA) -> Self {
        C32(c.0)
    }
}

thread_local! {
    /// set by C03 only: the conversion chain of a `C32` device continues with the user colour
    static USER_CHAIN: std::cell::Cell<bool> = std::cell::Cell::new(false);
}
pub fn set_user_chain(on: bool) {
    USER_CHAIN.with(|u| u.set(on));
}

pub trait ImageVisitor<C: SimColor> {
    type Out;
    fn visit<I: ImageDrawable<Color = C> + GetPixel<Color = C>>(&mut self, img: &I) -> Self::Out;
}

pub trait SimColor: PixelColor + core::fmt::Debug + Send + Sync + 'static {
    const KIND: ColorKind;
    /// The colour type one level up the `color_converted` chain (`Down: Into<Self>`).
    type Down: SimColor + Into<Self>;
    fn to_u32(self) -> u32;
    fn from_u32(v: u32) -> Self {
        Self::from(<Self::Raw as RawData>::from_u32(v))
    }
    /// Build an `ImageRaw<Self, order>` over `data` and hand it to the visitor.
    /// None: `ImageRaw::new` rejected the buffer.
    fn with_image<V: ImageVisitor<Self>>(data: &[u8], w: u32, h: u32, be: bool, v: &mut V) -> Option<V::Out>;
    /// `ImageRaw::new_const` is the panicking twin of `ImageRaw::new`: it must return the same image
    /// when `new` accepts the buffer and panic when `new` rejects it. Err(description) otherwise.
    fn new_const_agrees(data: &[u8], w: u32, h: u32, be: bool) -> Result<(), String>;
}

macro_rules! with_image_impl {
    ($t:ty) => {
        fn with_image<V: ImageVisitor<Self>>(data: &[u8], w: u32, h: u32, be: bool, v: &mut V) -> Option<V::Out> {
            if be {
                let img = ImageRaw::<$t, BigEndianLsb0>::new(data, Size::new(w, h)).ok()?;
                Some(v.visit(&img))
            } else {
                let img = ImageRaw::<$t, LittleEndianMsb0>::new(data, Size::new(w, h)).ok()?;
                Some(v.visit(&img))
            }
        }
    };
}

macro_rules! new_const_impl {
    ($t:ty) => {
        fn new_const_agrees(data: &[u8], w: u32, h: u32, be: bool) -> Result<(), String> {
            fn go<O: embedded_graphics::pixelcolor::raw::DataOrder + PartialEq>(data: &[u8], size: Size) -> Result<(), String> {
                let by_new = ImageRaw::<$t, O>::new(data, size);
                let by_const = crate::runner::guarded(|| ImageRaw::<$t, O>::new_const(data, size));
                match (by_new, by_const) {
                    (Ok(a), Ok(b)) if a == b => Ok(()),
                    (Ok(_), Ok(_)) => Err("ImageRaw::new_const returned a different image than ImageRaw::new".into()),
                    (Ok(_), Err(p)) => Err(format!("ImageRaw::new accepted the buffer but new_const panicked: {}", p)),
                    (Err(_), Ok(_)) => Err("ImageRaw::new rejected the buffer but new_const accepted it".into()),
                    (Err(_), Err(_)) => Ok(()),
                }
            }
            if be {
                go::<BigEndianLsb0>(data, Size::new(w, h))
            } else {
                go::<LittleEndianMsb0>(data, Size::new(w, h))
            }
        }
    };
}

macro_rules! sim_color {
    ($t:ty, $kind:ident, $down:ty) => {
        impl SimColor for $t {
            const KIND: ColorKind = ColorKind::$kind;
            type Down = $down;
            fn to_u32(self) -> u32 {
                self.into_storage() as u32
            }
            with_image_impl!($t);
            new_const_impl!($t);
        }
    };
}
sim_color!(BinaryColor, Binary, BinaryColor);
sim_color!(Gray2, Gray2, Gray2);
sim_color!(Gray4, Gray4, Gray4);
sim_color!(Gray8, Gray8, Gray8);
sim_color!(Rgb565, Rgb565, BinaryColor);
sim_color!(Rgb888, Rgb888, Rgb565);
sim_color!(Rgb332, Rgb332, Rgb332);
sim_color!(Rgb444, Rgb444, Rgb444);
sim_color!(Rgb555, Rgb555, Rgb555);
sim_color!(Bgr555, Bgr555, Bgr555);
sim_color!(Bgr565, Bgr565, Bgr565);
sim_color!(Bgr888, Bgr888, Bgr888);
impl SimColor for Cu8 {
    const KIND: ColorKind = ColorKind::User8;
    type Down = Cu8;
    fn to_u32(self) -> u32 {
        self.0 as u32
    }
    with_image_impl!(Cu8);
    new_const_impl!(Cu8);
}
impl SimColor for Cu2 {
    const KIND: ColorKind = ColorKind::User2;
    type Down = Cu2;
    fn to_u32(self) -> u32 {
        self.0 as u32
    }
    with_image_impl!(Cu2);
    new_const_impl!(Cu2);
}
impl SimColor for CuA {
    const KIND: ColorKind = ColorKind::UserA;
    type Down = CuA;
    fn to_u32(self) -> u32 {
        self.0
    }
    with_image_impl!(CuA);
    new_const_impl!(CuA);
}
impl SimColor for C32 {
    const KIND: ColorKind = ColorKind::C32;
    type Down = CuA;
    fn to_u32(self) -> u32 {
        self.0
    }
    with_image_impl!(C32);
    new_const_impl!(C32);
}

/// Conversion of a raw colour of `Down(kind)` to a raw colour of `kind` through the library's `Into`.
pub fn convert_down_to(kind: ColorKind, raw_down: u32) -> u32 {
    fn go<C: SimColor>(v: u32) -> u32 {
        let d = <C::Down as SimColor>::from_u32(v);
        let c: C = d.into();
        c.to_u32()
    }
    match kind {
        ColorKind::Binary => go::<BinaryColor>(raw_down),
        ColorKind::Gray2 => go::<Gray2>(raw_down),
        ColorKind::Gray4 => go::<Gray4>(raw_down),
        ColorKind::Gray8 => go::<Gray8>(raw_down),
        ColorKind::Rgb565 => go::<Rgb565>(raw_down),
        ColorKind::Rgb888 => go::<Rgb888>(raw_down),
        ColorKind::C32 => go::<C32>(raw_down),
        k => unreachable!("{} is not part of the colour-conversion chain", k.name()),
    }
}

pub fn down_kind(kind: ColorKind) -> ColorKind {
    match kind {
        ColorKind::Rgb888 => ColorKind::Rgb565,
        ColorKind::Rgb565 => ColorKind::Binary,
        ColorKind::C32 if USER_CHAIN.with(|u| u.get()) => ColorKind::UserA,
        k => k,
    }
}

// ---------------------------------------------------------------- device

/// Unique token per injected fault, so "some error" cannot pass for "that error".
#[derive(Clone, Copy, PartialEq, Eq, Debug)]
pub struct SimError(pub u64);

pub const BUDGET_TOKEN: u64 = 0xB0D6_E7B0_D6E7_0000;

pub const CAP_CONTIG: u8 = 1;
pub const CAP_SOLID: u8 = 2;
pub const CAP_CLEAR: u8 = 4;

pub fn caps_name(caps: u8) -> String {
    if caps == 0 {
        return "draw_iter_only".into();
    }
    let mut v = Vec::new();
    if caps & CAP_CONTIG != 0 {
        v.push("fill_contiguous");
    }
    if caps & CAP_SOLID != 0 {
        v.push("fill_solid");
    }
    if caps & CAP_CLEAR != 0 {
        v.push("clear");
    }
    v.join("+")
}

#[derive(Clone, Copy, PartialEq, Eq, Debug)]
pub enum Discipline {
    /// `points.zip(colors)`: stops without pulling a surplus colour
    ZipPointsFirst,
    /// `colors.zip(points)`: pulls one surplus colour
    ZipColoursFirst,
    /// `colors.take(w*h)`
    TakeExact,
    /// pulls until `None` (DMA-style), at most w*h + DRAIN_SLACK
    DrainBounded,
    /// a clipping driver: only the visible part of the area is transferred; the colours of hidden
    /// pixels are discarded with `Iterator::nth` (one call from the end of a visible row to the start
    /// of the next, i.e. across the row boundary), nothing is pulled after the last visible pixel
    SkipHidden,
}

pub const DISCIPLINES: [Discipline; 5] = [
    Discipline::ZipPointsFirst,
    Discipline::ZipColoursFirst,
    Discipline::TakeExact,
    Discipline::DrainBounded,
    Discipline::SkipHidden,
];
pub const N_DISC: u32 = 5;

pub const DRAIN_SLACK: u64 = 160;

impl Discipline {
    pub fn name(self) -> &'static str {
        match self {
            Discipline::ZipPointsFirst => "ZipPointsFirst",
            Discipline::ZipColoursFirst => "ZipColoursFirst",
            Discipline::TakeExact => "TakeExact",
            Discipline::DrainBounded => "DrainBounded",
            Discipline::SkipHidden => "SkipHidden",
        }
    }
    pub fn index(self) -> u32 {
        self as u32
    }
}

#[derive(Clone, Copy, PartialEq, Eq, Debug)]
pub enum Method {
    DrawIter = 0,
    FillContiguous = 1,
    FillSolid = 2,
    Clear = 3,
}

impl Method {
    pub fn name(self) -> &'static str {
        match self {
            Method::DrawIter => "draw_iter",
            Method::FillContiguous => "fill_contiguous",
            Method::FillSolid => "fill_solid",
            Method::Clear => "clear",
        }
    }
}

#[derive(Clone, Copy, Debug, PartialEq, Eq)]
pub struct Fault {
    /// 1-based index of the entry call (calls arriving at the device from above)
    pub at_call: u64,
    /// fail after this many stream items were pulled by the native method executing the call
    /// (None: fail before touching the stream)
    pub at_item: Option<u64>,
    /// after the fault every later call fails too
    pub sticky: bool,
}

#[derive(Clone, Debug, PartialEq, Eq)]
pub struct CallRec {
    pub method: Method,
    /// native method that finally executed the call (after default delegation)
    pub executed_by: Method,
    pub area: Option<[i32; 4]>,
    pub colour: Option<u32>,
    /// items pulled from the stream by the executing native method
    pub pulled: u64,
    /// colours pulled from a fill_contiguous stream beyond the area's w*h
    pub surplus: u64,
    /// stream ended (returned None) while being pulled
    pub stream_ended: bool,
    /// items (x, y, colour) as pulled, only when `log_items`
    pub items: Vec<(i32, i32, u32)>,
    pub items_hash: u64,
    pub failed: Option<u64>,
    pub changed: u64,
}

thread_local! {
    /// First contradiction between a stream's `size_hint()` and what the stream then yielded, seen by
    /// a device or by the buffering shim during the current run (taken by the property's oracle).
    static HINT_BREACH: std::cell::RefCell<Option<String>> = std::cell::RefCell::new(None);
    /// An unbounded internal-iteration consumer met a stream that did not end (see UNBOUNDED_LIMIT).
    static UNBOUNDED_ABORT: std::cell::Cell<bool> = std::cell::Cell::new(false);
    /// reach counters of the current run: [colour streams consumed by k x next + for_each, pixel
    /// streams consumed by for_each, streams whose size_hint was compared with an observed end]
    static REACH: std::cell::Cell<[u32; 3]> = std::cell::Cell::new([0; 3]);
}

pub fn reach(i: usize) {
    REACH.with(|r| {
        let mut v = r.get();
        v[i] = v[i].saturating_add(1);
        r.set(v);
    });
}
pub fn take_reach() -> [u32; 3] {
    REACH.with(|r| r.replace([0; 3]))
}

/// Colours beyond the area's `w*h` after which an unbounded `for_each` consumer gives up (by unwinding).
pub const UNBOUNDED_LIMIT: u64 = 1_000_000;
pub const UNBOUNDED_MSG: &str = "simulated consumer: the colour stream did not end within area + 1000000 colours";

pub fn take_hint_breach() -> Option<String> {
    HINT_BREACH.with(|h| h.borrow_mut().take())
}
pub fn take_unbounded_abort() -> bool {
    UNBOUNDED_ABORT.with(|u| u.replace(false))
}
pub fn abort_unbounded() -> ! {
    UNBOUNDED_ABORT.with(|u| u.set(true));
    std::panic::panic_any(String::from(UNBOUNDED_MSG))
}

/// `Iterator::size_hint` is part of the iterator protocol: a consumer may size its transfer by the
/// lower bound and stop at the upper bound. `min_total` items were certainly yielded; if the stream
/// was seen to end, it yielded at most `ended_max` in total.
pub fn note_hint(what: &str, hint: (usize, Option<usize>), min_total: u64, ended_max: Option<u64>) {
    let (lo, hi) = hint;
    if ended_max.is_some() && (lo > 0 || hi.is_some()) {
        reach(2);
    }
    let msg = match (hi, ended_max) {
        (Some(h), _) if min_total > h as u64 => format!(
            "{}: size_hint() was ({}, Some({})) but the stream then yielded at least {} item(s); a consumer that stops at the announced upper bound loses the rest",
            what, lo, h, min_total
        ),
        (_, Some(mx)) if lo as u64 > mx => format!(
            "{}: size_hint() was ({}, {:?}) but the stream ended after {} item(s); a consumer that sizes its transfer by the announced lower bound sends stale data",
            what, lo, hi, mx
        ),
        _ => return,
    };
    HINT_BREACH.with(|h| {
        let mut h = h.borrow_mut();
        if h.is_none() {
            *h = Some(msg);
        }
    });
}

pub struct DevState {
    pub bbox: Rectangle,
    pub rb: R,
    pub caps: u8,
    pub disc: Discipline,
    pub fault: Option<Fault>,
    pub token_base: u64,
    pub log_items: bool,
    pub log_calls: bool,
    /// keep the dense pixel memory (off for checks that only look at the call log)
    pub record_memory: bool,

    // recording
    pub calls: Vec<CallRec>,
    pub n_calls: u64,
    pub n_items: u64,
    depth: u32,
    cur: usize,
    cur_valid: bool,
    pub failed_at: Option<u64>,
    pub calls_after_failure: u64,
    pub faults_fired: u64,
    pub fault_mid_stream: bool,
    /// dense memory over `rb`: None = untouched
    pub memory: Vec<Option<u32>>,
    pub touched: u64,
    /// extent of the cells ever stored to (inside the box); `cells()` and hashes only walk this
    pub dirty: Option<R>,
    /// any write addressed to the device outside `guard` (device coordinates), first offender
    pub guard: Option<R>,
    pub guard_violation: Option<(i32, i32, u64)>,
    /// extent of everything addressed to the device (before its own clipping)
    pub received_extent: Option<R>,
    pub received_count: u64,
    pub budget_calls: u64,
    pub budget_items: u64,
    pub budget_exceeded: bool,
    pub shape: Hash64,
    pub trace: Hash64,
    pub max_surplus: u64,
    /// the streams this device receives through `fill_contiguous` are finite by the property under
    /// check (C09: image colour streams), so its DrainBounded discipline may drain without bound
    pub unbounded_ok: bool,
    /// a colour stream yielded again after it had returned None (seen by the draining consumer)
    pub resumed_after_end: bool,
}

pub struct SimDisplay<C: SimColor> {
    pub st: DevState,
    _c: core::marker::PhantomData<C>,
}

impl<C: SimColor> SimDisplay<C> {
    pub fn new(bbox: Rectangle, caps: u8, disc: Discipline) -> Self {
        Self::with_memory(bbox, caps, disc, true)
    }
    pub fn with_memory(bbox: Rectangle, caps: u8, disc: Discipline, record_memory: bool) -> Self {
        SimDisplay {
            st: DevState::new(bbox, caps, disc, record_memory),
            _c: core::marker::PhantomData,
        }
    }
    pub fn into_state(self) -> DevState {
        self.st
    }
}

impl DevState {
    pub fn new(bbox: Rectangle, caps: u8, disc: Discipline, record_memory: bool) -> Self {
        let rb = R::from_rect(&bbox);
        let cells = if rb.is_empty() || !record_memory { 0 } else { (rb.w() * rb.h()) as usize };
        DevState {
            bbox,
            rb,
            caps,
            disc,
            fault: None,
            token_base: 0x7000_0000_0000_0000,
            log_items: false,
            log_calls: true,
            record_memory,
            calls: Vec::new(),
            n_calls: 0,
            n_items: 0,
            depth: 0,
            cur: 0,
            cur_valid: false,
            failed_at: None,
            calls_after_failure: 0,
            faults_fired: 0,
            fault_mid_stream: false,
            memory: vec![None; cells],
            touched: 0,
            dirty: None,
            guard: None,
            guard_violation: None,
            received_extent: None,
            received_count: 0,
            budget_calls: 200_000,
            budget_items: 20_000_000,
            budget_exceeded: false,
            shape: Hash64::new(),
            trace: Hash64::new(),
            max_surplus: 0,
            unbounded_ok: false,
            resumed_after_end: false,
        }
    }

    pub fn token_for(&self, call: u64) -> u64 {
        self.token_base.wrapping_add(call.wrapping_mul(0x1_0000_0001))
    }

    pub fn get(&self, x: i32, y: i32) -> Option<u32> {
        if self.record_memory && self.rb.contains(x as i64, y as i64) {
            self.memory[((y as i64 - self.rb.y0) * self.rb.w() + (x as i64 - self.rb.x0)) as usize]
        } else {
            None
        }
    }

    /// (x, y, colour) of all touched cells in row-major order.
    pub fn cells(&self) -> Vec<(i32, i32, u32)> {
        let mut v = Vec::with_capacity(self.touched as usize);
        let d = match &self.dirty {
            Some(d) if self.record_memory => *d,
            _ => return v,
        };
        let w = self.rb.w();
        for y in d.y0..d.y1 {
            for x in d.x0..d.x1 {
                if let Some(c) = self.memory[((y - self.rb.y0) * w + (x - self.rb.x0)) as usize] {
                    v.push((x as i32, y as i32, c));
                }
            }
        }
        v
    }

    pub fn memory_hash(&self) -> u64 {
        let mut h = Hash64::new();
        for (x, y, c) in self.cells() {
            h.i32(x);
            h.i32(y);
            h.u32(c);
        }
        h.finish()
    }

    pub fn reset_memory(&mut self) {
        for c in self.memory.iter_mut() {
            *c = None;
        }
        self.touched = 0;
        self.dirty = None;
    }

    #[inline]
    fn store(&mut self, x: i64, y: i64, c: u32) {
        self.received_count += 1;
        match &mut self.received_extent {
            Some(e) => e.grow(x, y),
            None => self.received_extent = Some(R::new(x, y, x + 1, y + 1)),
        }
        if let Some(g) = &self.guard {
            if !g.contains(x, y) && self.guard_violation.is_none() {
                self.guard_violation = Some((x as i32, y as i32, self.n_calls));
            }
        }
        if self.record_memory && self.rb.contains(x, y) {
            match &mut self.dirty {
                Some(d) => d.grow(x, y),
                None => self.dirty = Some(R::new(x, y, x + 1, y + 1)),
            }
            let idx = ((y - self.rb.y0) * self.rb.w() + (x - self.rb.x0)) as usize;
            let cell = &mut self.memory[idx];
            if cell.is_none() {
                self.touched += 1;
            }
            if *cell != Some(c) {
                if self.cur_valid {
                    self.calls[self.cur].changed += 1;
                }
                *cell = Some(c);
            }
        }
    }

    fn enter(&mut self, m: Method, area: Option<&Rectangle>, colour: Option<u32>) {
        if self.depth == 0 {
            self.n_calls += 1;
            if self.failed_at.is_some() {
                self.calls_after_failure += 1;
            }
            if self.n_calls > self.budget_calls {
                self.budget_exceeded = true;
            }
            self.cur_valid = false;
            if self.log_calls {
                self.calls.push(CallRec {
                    method: m,
                    executed_by: m,
                    area: area.map(|a| {
                        [
                            a.top_left.x,
                            a.top_left.y,
                            a.size.width as i32,
                            a.size.height as i32,
                        ]
                    }),
                    colour,
                    pulled: 0,
                    surplus: 0,
                    stream_ended: false,
                    items: Vec::new(),
                    items_hash: 0,
                    failed: None,
                    changed: 0,
                });
                self.cur = self.calls.len() - 1;
                self.cur_valid = true;
            }
            self.trace.u32(m as u32);
            if let Some(a) = area {
                self.trace.i32(a.top_left.x);
                self.trace.i32(a.top_left.y);
                self.trace.u32(a.size.width);
                self.trace.u32(a.size.height);
            }
            if let Some(c) = colour {
                self.trace.u32(c);
            }
            // shape: method + relation of area to the device box
            self.shape.u32(m as u32);
            if let Some(a) = area {
                let ra = R::from_rect(a);
                let rel = if ra.is_empty() {
                    0
                } else if self.rb.contains_rect(&ra) {
                    1
                } else if ra.intersect(&self.rb).is_empty() {
                    2
                } else {
                    3
                };
                self.shape.u32(rel);
            }
        }
        self.depth += 1;
    }

    fn leave(&mut self, r: &Result<(), SimError>) {
        self.depth -= 1;
        if self.depth == 0 {
            if let Err(e) = r {
                if self.cur_valid {
                    self.calls[self.cur].failed = Some(e.0);
                }
                self.trace.u64(e.0);
            }
            if self.cur_valid {
                let c = &self.calls[self.cur];
                let pc = match c.pulled {
                    0 => 0,
                    1 => 1,
                    2..=8 => 2,
                    9..=64 => 3,
                    _ => 4,
                };
                self.shape.u32(c.executed_by as u32);
                self.shape.u32(pc);
                self.shape.u32(if c.surplus > 0 { 1 } else { 0 });
                self.shape.u32(if c.failed.is_some() { 1 } else { 0 });
            }
        }
    }

    /// Called by a native method before touching anything: fail now?
    fn fail_at_start(&mut self) -> Option<SimError> {
        if self.budget_exceeded {
            return Some(SimError(BUDGET_TOKEN));
        }
        if let Some(f) = self.fault {
            if self.n_calls == f.at_call && f.at_item.is_none() {
                return Some(self.fire(false));
            }
            if f.sticky && self.n_calls > f.at_call && self.failed_at.is_some() {
                return Some(SimError(self.token_for(self.n_calls)));
            }
        }
        None
    }

    /// Called by a native stream consumer after `pulled` items: fail now?
    #[inline]
    fn fail_at_item(&mut self, pulled: u64) -> Option<SimError> {
        if let Some(f) = self.fault {
            if self.n_calls == f.at_call && f.at_item == Some(pulled) && self.failed_at.is_none() {
                return Some(self.fire(true));
            }
        }
        if self.n_items > self.budget_items {
            self.budget_exceeded = true;
            return Some(SimError(BUDGET_TOKEN));
        }
        None
    }

    fn fire(&mut self, mid: bool) -> SimError {
        self.failed_at = Some(self.n_calls);
        self.faults_fired += 1;
        self.fault_mid_stream = mid;
        SimError(self.token_for(self.n_calls))
    }

    #[inline]
    fn note_item(&mut self, x: i32, y: i32, c: u32) {
        self.n_items += 1;
        if self.cur_valid {
            let log = self.log_items;
            let rec = &mut self.calls[self.cur];
            rec.pulled += 1;
            let mut h = Hash64(rec.items_hash ^ 0x9E37_79B9);
            h.i32(x);
            h.i32(y);
            h.u32(c);
            rec.items_hash = h.0;
            if log {
                rec.items.push((x, y, c));
            }
        }
        self.trace.i32(x);
        self.trace.i32(y);
        self.trace.u32(c);
    }

    fn set_executed_by(&mut self, m: Method) {
        if self.cur_valid {
            self.calls[self.cur].executed_by = m;
        }
    }

}

impl DevState {
    fn note_area_write(&mut self, ra: &R, c: u32) {
        self.received_count += (ra.w() * ra.h()) as u64;
        match &mut self.received_extent {
            Some(e) => {
                e.grow(ra.x0, ra.y0);
                e.grow(ra.x1 - 1, ra.y1 - 1);
            }
            None => self.received_extent = Some(*ra),
        }
        if let Some(g) = &self.guard {
            if !g.contains_rect(ra) && self.guard_violation.is_none() {
                // first point of the area outside the guard, row-major
                let mut off = (ra.x0 as i32, ra.y0 as i32);
                'o: for y in ra.y0..ra.y1 {
                    for x in ra.x0..ra.x1 {
                        if !g.contains(x, y) {
                            off = (x as i32, y as i32);
                            break 'o;
                        }
                    }
                }
                self.guard_violation = Some((off.0, off.1, self.n_calls));
            }
        }
        let vis = ra.intersect(&self.rb);
        if vis.is_empty() || !self.record_memory {
            return;
        }
        match &mut self.dirty {
            Some(d) => {
                d.grow(vis.x0, vis.y0);
                d.grow(vis.x1 - 1, vis.y1 - 1);
            }
            None => self.dirty = Some(vis),
        }
        let w = self.rb.w();
        for y in vis.y0..vis.y1 {
            for x in vis.x0..vis.x1 {
                let idx = ((y - self.rb.y0) * w + (x - self.rb.x0)) as usize;
                let cell = &mut self.memory[idx];
                if cell.is_none() {
                    self.touched += 1;
                }
                if *cell != Some(c) {
                    if self.cur_valid {
                        self.calls[self.cur].changed += 1;
                    }
                    *cell = Some(c);
                }
            }
        }
    }

    pub fn describe_call(&self, i: usize) -> String {
        let c = &self.calls[i];
        let mut s = format!("#{} {}", i + 1, c.method.name());
        if let Some(a) = c.area {
            s.push_str(&format!(" [{},{} {}x{}]", a[0], a[1], a[2], a[3]));
        }
        if let Some(col) = c.colour {
            s.push_str(&format!(" c={:#x}", col));
        }
        if c.executed_by != c.method {
            s.push_str(&format!(" via-default->{}", c.executed_by.name()));
        } else {
            s.push_str(" native");
        }
        if c.pulled > 0 || c.method == Method::DrawIter || c.method == Method::FillContiguous {
            s.push_str(&format!(" pulled={}", c.pulled));
        }
        if c.surplus > 0 {
            s.push_str(&format!(" surplus={}", c.surplus));
        }
        s.push_str(&format!(" changed={}", c.changed));
        if let Some(t) = c.failed {
            s.push_str(&format!(" => Err({:#x})", t));
        }
        s
    }

    pub fn describe_calls(&self, max: usize) -> Vec<String> {
        (0..self.calls.len().min(max)).map(|i| self.describe_call(i)).collect()
    }
}

impl<C: SimColor> SimDisplay<C> {
    // ------------------------------------------------------------ native methods

    fn native_draw_iter<I: Iterator<Item = Pixel<C>>>(&mut self, mut pixels: I) -> Result<(), SimError> {
        let st = &mut self.st;
        st.set_executed_by(Method::DrawIter);
        if let Some(e) = st.fail_at_start() {
            return Err(e);
        }
        // Two ways a driver walks the pixel stream: an external `next()` loop, or internal iteration
        // (`pixels.for_each(..)`, which runs the iterator's `fold`). The second style is used by the
        // DrainBounded and SkipHidden devices whenever no mid-stream fault is planned for this call
        // (a fault needs the loop so that it can stop after j items).
        let fault_here = matches!(st.fault, Some(f) if f.at_call == st.n_calls && f.at_item.is_some());
        let hint = pixels.size_hint();
        if matches!(st.disc, Discipline::DrainBounded | Discipline::SkipHidden) && !fault_here && !st.budget_exceeded {
            let mut count = 0u64;
            reach(1);
            pixels.for_each(|Pixel(p, c)| {
                let c = c.to_u32();
                count += 1;
                st.note_item(p.x, p.y, c);
                st.store(p.x as i64, p.y as i64, c);
            });
            if st.cur_valid {
                st.calls[st.cur].stream_ended = true;
            }
            note_hint("pixel stream passed to draw_iter", hint, count, Some(count));
            return Ok(());
        }
        let mut pulled = 0u64;
        loop {
            if let Some(e) = st.fail_at_item(pulled) {
                note_hint("pixel stream passed to draw_iter", hint, pulled, None);
                return Err(e);
            }
            match pixels.next() {
                None => {
                    if st.cur_valid {
                        st.calls[st.cur].stream_ended = true;
                    }
                    note_hint("pixel stream passed to draw_iter", hint, pulled, Some(pulled));
                    return Ok(());
                }
                Some(Pixel(p, c)) => {
                    let c = c.to_u32();
                    pulled += 1;
                    st.note_item(p.x, p.y, c);
                    st.store(p.x as i64, p.y as i64, c);
                }
            }
        }
    }

    fn native_fill_contiguous<I: Iterator<Item = C>>(&mut self, area: &Rectangle, mut colors: I) -> Result<(), SimError> {
        const WHAT: &str = "colour stream passed to fill_contiguous";
        let st = &mut self.st;
        st.set_executed_by(Method::FillContiguous);
        if let Some(e) = st.fail_at_start() {
            return Err(e);
        }
        let ra = R::from_rect(area);
        let (w, h) = (ra.w().max(0), ra.h().max(0));
        let n = if ra.is_empty() { 0u64 } else { (w * h) as u64 };
        let mut pulled = 0u64;
        let hint = colors.size_hint();
        if st.disc == Discipline::SkipHidden {
            let vis = ra.intersect(&st.rb);
            if vis.is_empty() {
                return Ok(());
            }
            let mut consumed = 0u64; // colours taken from the stream so far, skipped ones included
            'rows: for y in vis.y0..vis.y1 {
                let row_start = ((y - ra.y0) * w + (vis.x0 - ra.x0)) as u64;
                let skip = row_start - consumed;
                if skip > 0 {
                    if colors.nth(skip as usize - 1).is_none() {
                        if st.cur_valid {
                            st.calls[st.cur].stream_ended = true;
                        }
                        note_hint(WHAT, hint, consumed, Some(consumed + skip - 1));
                        break 'rows;
                    }
                    consumed += skip;
                }
                for x in vis.x0..vis.x1 {
                    if let Some(e) = st.fail_at_item(pulled) {
                        return Err(e);
                    }
                    match colors.next() {
                        None => {
                            if st.cur_valid {
                                st.calls[st.cur].stream_ended = true;
                            }
                            note_hint(WHAT, hint, consumed, Some(consumed));
                            break 'rows;
                        }
                        Some(c) => {
                            let c = c.to_u32();
                            pulled += 1;
                            consumed += 1;
                            st.note_item(x as i32, y as i32, c);
                            st.store(x, y, c);
                        }
                    }
                }
            }
            note_hint(WHAT, hint, consumed, None);
            return Ok(());
        }
        // one colour arrives: pair it with the next point of the area (row-major, own arithmetic) or
        // count it as surplus
        #[inline]
        fn place(st: &mut DevState, ra: &R, w: i64, n: u64, idx: &mut u64, pulled: &mut u64, c: u32) {
            *pulled += 1;
            if *idx < n {
                let x = ra.x0 + (*idx % w as u64) as i64;
                let y = ra.y0 + (*idx / w as u64) as i64;
                st.note_item(x as i32, y as i32, c);
                st.store(x, y, c);
                *idx += 1;
            } else {
                // surplus colour: no point left to pair it with
                st.note_item(i32::MIN, i32::MIN, c);
                if st.cur_valid {
                    st.calls[st.cur].surplus += 1;
                }
                let s = *pulled - n;
                if s > st.max_surplus {
                    st.max_surplus = s;
                }
            }
        }
        let mut idx = 0u64;
        let fault_here = matches!(st.fault, Some(f) if f.at_call == st.n_calls && f.at_item.is_some());
        if st.disc == Discipline::DrainBounded && st.unbounded_ok && !fault_here && !st.budget_exceeded {
            // Mixed consumption, unbounded: the transfer is opened with the first k colours pulled by
            // `next`, the rest is streamed by internal iteration (`for_each`, which runs the stream's
            // `fold`). Only for devices whose streams are finite by the property under check.
            let k = match (ra.x0 + ra.y0) & 3 {
                0 => 1,
                1 => w as u64,
                2 => 0,
                _ => 2 * w as u64,
            };
            let mut ended = false;
            while pulled < k {
                match colors.next() {
                    None => {
                        ended = true;
                        break;
                    }
                    Some(c) => place(st, &ra, w, n, &mut idx, &mut pulled, c.to_u32()),
                }
            }
            // a burst consumer sizes the rest of the transfer by the hint it reads now
            let (hint_mid, at_mid) = (colors.size_hint(), pulled);
            if !ended {
                reach(0);
                colors.by_ref().for_each(|c| {
                    if pulled > n + UNBOUNDED_LIMIT {
                        abort_unbounded();
                    }
                    place(st, &ra, w, n, &mut idx, &mut pulled, c.to_u32());
                });
            }
            let total = pulled;
            // a chunked consumer refills until a refill comes back empty, i.e. it polls once more
            // after the end: a stream that resumes after its end contains more colours than it said
            for _ in 0..2 {
                if let Some(c) = colors.next() {
                    place(st, &ra, w, n, &mut idx, &mut pulled, c.to_u32());
                    if pulled <= n {
                        // resumed inside the area: count it as surplus all the same
                        st.max_surplus = st.max_surplus.max(1);
                    }
                    st.resumed_after_end = true;
                }
            }
            if st.cur_valid {
                st.calls[st.cur].stream_ended = true;
            }
            note_hint(WHAT, hint, total, Some(total));
            note_hint("colour stream passed to fill_contiguous, size_hint() read again mid-stream", hint_mid, total - at_mid, Some(total - at_mid));
            return Ok(());
        }
        // where the generic consumers read the hint a second time: just after the first row change
        let mid_at = w as u64 + 1 + ((ra.x0 + ra.y0) & 1) as u64;
        let mut hint_mid: Option<((usize, Option<usize>), u64)> = None;
        const WHAT_MID: &str = "colour stream passed to fill_contiguous, size_hint() read again mid-stream";
        loop {
            // decide whether to pull another colour, per discipline
            let have_point = idx < n;
            let pull = match st.disc {
                Discipline::ZipPointsFirst | Discipline::TakeExact => have_point,
                Discipline::ZipColoursFirst => true,
                Discipline::DrainBounded => pulled < n + DRAIN_SLACK,
                Discipline::SkipHidden => unreachable!(),
            };
            if !pull {
                break;
            }
            if let Some(e) = st.fail_at_item(pulled) {
                return Err(e);
            }
            if pulled == mid_at {
                hint_mid = Some((colors.size_hint(), pulled));
            }
            match colors.next() {
                None => {
                    if st.cur_valid {
                        st.calls[st.cur].stream_ended = true;
                    }
                    note_hint(WHAT, hint, pulled, Some(pulled));
                    if let Some((hm, at)) = hint_mid {
                        note_hint(WHAT_MID, hm, pulled - at, Some(pulled - at));
                    }
                    return Ok(());
                }
                Some(c) => {
                    place(st, &ra, w, n, &mut idx, &mut pulled, c.to_u32());
                    if !have_point && st.disc == Discipline::ZipColoursFirst {
                        break;
                    }
                }
            }
        }
        note_hint(WHAT, hint, pulled, None);
        if let Some((hm, at)) = hint_mid {
            note_hint(WHAT_MID, hm, pulled - at, None);
        }
        Ok(())
    }

    fn native_fill_solid(&mut self, area: &Rectangle, color: C) -> Result<(), SimError> {
        let st = &mut self.st;
        st.set_executed_by(Method::FillSolid);
        if let Some(e) = st.fail_at_start() {
            return Err(e);
        }
        let c = color.to_u32();
        let ra = R::from_rect(area);
        if ra.is_empty() {
            return Ok(());
        }
        // a native rectangle fill addresses the whole area; the device clips
        st.note_area_write(&ra, c);
        Ok(())
    }

    fn native_clear(&mut self, color: C) -> Result<(), SimError> {
        let st = &mut self.st;
        st.set_executed_by(Method::Clear);
        if let Some(e) = st.fail_at_start() {
            return Err(e);
        }
        let c = color.to_u32();
        let rb = st.rb;
        if !rb.is_empty() {
            st.note_area_write(&rb, c);
        }
        Ok(())
    }
}

impl<C: SimColor> Dimensions for SimDisplay<C> {
    fn bounding_box(&self) -> Rectangle {
        self.st.bbox
    }
}

impl<C: SimColor> DrawTarget for SimDisplay<C> {
    type Color = C;
    type Error = SimError;

    fn draw_iter<I>(&mut self, pixels: I) -> Result<(), SimError>
    where
        I: IntoIterator<Item = Pixel<C>>,
    {
        self.st.enter(Method::DrawIter, None, None);
        let r = self.native_draw_iter(pixels.into_iter());
        self.st.leave(&r);
        r
    }

    fn fill_contiguous<I>(&mut self, area: &Rectangle, colors: I) -> Result<(), SimError>
    where
        I: IntoIterator<Item = C>,
    {
        self.st.enter(Method::FillContiguous, Some(area), None);
        let r = if self.st.caps & CAP_CONTIG != 0 {
            self.native_fill_contiguous(area, colors.into_iter())
        } else {
            // the real default body from embedded-graphics-core
            UseDefaultFillContiguous(self).fill_contiguous(area, colors)
        };
        self.st.leave(&r);
        r
    }

    fn fill_solid(&mut self, area: &Rectangle, color: C) -> Result<(), SimError> {
        self.st.enter(Method::FillSolid, Some(area), Some(color.to_u32()));
        let r = if self.st.caps & CAP_SOLID != 0 {
            self.native_fill_solid(area, color)
        } else {
            UseDefaultFillSolid(self).fill_solid(area, color)
        };
        self.st.leave(&r);
        r
    }

    fn clear(&mut self, color: C) -> Result<(), SimError> {
        self.st.enter(Method::Clear, None, Some(color.to_u32()));
        let r = if self.st.caps & CAP_CLEAR != 0 {
            self.native_clear(color)
        } else {
            UseDefaultClear(self).clear(color)
        };
        self.st.leave(&r);
        r
    }
}

// Wrappers that forward every method except one, which is left to the trait default, so the
// non-native branch of the device executes the actual default bodies of the crate under test.

macro_rules! fwd_draw_iter {
    () => {
        fn draw_iter<I>(&mut self, pixels: I) -> Result<(), SimError>
        where
            I: IntoIterator<Item = Pixel<C>>,
        {
            self.0.draw_iter(pixels)
        }
    };
}
macro_rules! fwd_fill_contiguous {
    () => {
        fn fill_contiguous<I>(&mut self, area: &Rectangle, colors: I) -> Result<(), SimError>
        where
            I: IntoIterator<Item = C>,
        {
            self.0.fill_contiguous(area, colors)
        }
    };
}
macro_rules! fwd_fill_solid {
    () => {
        fn fill_solid(&mut self, area: &Rectangle, color: C) -> Result<(), SimError> {
            self.0.fill_solid(area, color)
        }
    };
}
macro_rules! fwd_clear {
    () => {
        fn clear(&mut self, color: C) -> Result<(), SimError> {
            self.0.clear(color)
        }
    };
}

struct UseDefaultFillContiguous<'a, C: SimColor>(&'a mut SimDisplay<C>);
struct UseDefaultFillSolid<'a, C: SimColor>(&'a mut SimDisplay<C>);
struct UseDefaultClear<'a, C: SimColor>(&'a mut SimDisplay<C>);

macro_rules! dims {
    ($t:ident) => {
        impl<C: SimColor> Dimensions for $t<'_, C> {
            fn bounding_box(&self) -> Rectangle {
                self.0.st.bbox
            }
        }
    };
}
dims!(UseDefaultFillContiguous);
dims!(UseDefaultFillSolid);
dims!(UseDefaultClear);

impl<C: SimColor> DrawTarget for UseDefaultFillContiguous<'_, C> {
    type Color = C;
    type Error = SimError;
    fwd_draw_iter!();
    fwd_fill_solid!();
    fwd_clear!();
}
impl<C: SimColor> DrawTarget for UseDefaultFillSolid<'_, C> {
    type Color = C;
    type Error = SimError;
    fwd_draw_iter!();
    fwd_fill_contiguous!();
    fwd_clear!();
}
impl<C: SimColor> DrawTarget for UseDefaultClear<'_, C> {
    type Color = C;
    type Error = SimError;
    fwd_draw_iter!();
    fwd_fill_contiguous!();
    fwd_fill_solid!();
}
