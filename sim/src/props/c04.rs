//! C04 — target errors stop drawing immediately and are returned unchanged.
//!
//! Per scenario: run fault-free, record the n calls arriving at the device; then re-run with an
//! error injected at every call k (all of them when n <= 96) and, for calls that carry a stream,
//! at stream items {0, 1, mid, last, end}; each in both after-failure modes (recovering / sticky).

use crate::dev::{CallRec, ColorKind, Fault, Method, BUDGET_TOKEN};
use crate::erased::Ad;
use crate::exec::{run_drawable, DrawRun, RunCfg};
use crate::json::J;
use crate::model::R;
use crate::prop::{Opts, Property, RunOut, Tier, Violation};
use crate::rng::{det_hash, Hash64, Src};
use crate::scen::{gen_caps_disc, gen_small_box, gen_stack, stack_json, DevCfg};
use crate::workload::{gen_drawable, gen_knobs, Deco, DrawableSpec, Path, TextEntry};

pub struct C04;

#[derive(Clone, Debug, Hash)]
pub struct Scenario {
    pub dev: DevCfg,
    pub dev_kind: ColorKind,
    pub stack: Vec<Ad>,
    pub drawable: DrawableSpec,
    /// seeds the sampled fault positions when n > 96
    pub pick: u32,
}

const PROBES: &[&str] = &[
    "fault_on_first_call",
    "fault_on_middle_call",
    "fault_on_last_call",
    "fault_mid_stream",
    "fault_at_stream_end",
    "fault_in_default_chain",
    "fault_below_stack_depth_3",
    "fault_below_clipped_slow_path",
    "fault_in_second_text_line",
    "fault_in_text_decoration_or_spacing",
    "fault_in_sticky_mode",
    "n_calls_over_96_sampled",
    "single_call_drawable",
    "kind_rectangle",
    "kind_circle",
    "kind_ellipse",
    "kind_rounded_rectangle",
    "kind_triangle",
    "kind_line",
    "kind_arc",
    "kind_sector",
    "kind_polyline",
    "kind_image",
    "kind_sub_image",
    "kind_text",
    "kind_draw_string",
    "kind_draw_whitespace",
    "kind_pixel",
    "kind_pixel_iter",
    "dotted_rectangle",
    "device_native_fill_solid",
    "device_native_fill_contiguous",
    "device_draw_iter_only",
    "color_converted_in_stack",
];

const FAULTS: &[&str] = &["err_at_call", "err_mid_stream", "err_sticky"];

fn probe(name: &str) -> u64 {
    1u64 << PROBES.iter().position(|p| *p == name).expect("probe name")
}

fn same_call_prefix(a: &CallRec, b: &CallRec) -> bool {
    a.method == b.method && a.area == b.area && a.colour == b.colour
}

impl Property for C04 {
    type Scenario = Scenario;

    fn id(&self) -> &'static str {
        "C04"
    }
    fn level(&self) -> &'static str {
        "fault_enumeration"
    }
    fn technique(&self) -> &'static str {
        "deterministic simulation of the DrawTarget seam with exhaustive per-scenario fault injection (error at every device call k and at stream items), seeded scenarios"
    }
    fn runs(&self, tier: Tier) -> u64 {
        match tier {
            Tier::Quick => 150_000,
            Tier::Thorough => 4_000_000,
        }
    }
    fn probe_names(&self) -> &'static [&'static str] {
        PROBES
    }
    fn fault_names(&self) -> &'static [&'static str] {
        FAULTS
    }
    fn lattice_size(&self) -> u32 {
        8 * crate::dev::N_DISC * 4 * DrawableSpec::KINDS
    }
    fn lattice_desc(&self) -> &'static str {
        "capability set (8) x consumption discipline (5) x stack depth (0..=3) x drawable kind (16)"
    }
    fn sub_eval_name(&self) -> &'static str {
        "fault_injections"
    }
    fn rule(&self) -> &'static str {
        "one seeded scenario = device (box, capability set, discipline) + adapter stack (depth 0..3 of clipped/cropped/translated/color_converted) + one drawable; its fault space is ENUMERATED: Err injected at every call k arriving at the device (all k when n<=96, else first 32 / last 32 / 32 seeded) and, for stream-carrying calls, at items {0,1,mid,last,end}, each in recovering and sticky mode. distinct = 64-bit hash of the decoded scenario; non-trivial = at least one injected fault fired in a scenario that makes >= 2 device calls or fired mid-stream"
    }
    fn assumptions(&self) -> Vec<&'static str> {
        vec![
            "SimDisplay models conforming drivers (a failing call may have transmitted a prefix of its pixels)",
            "calls are counted where they arrive at the device from above; trait-default delegation inside the device belongs to the failing call",
            "coordinates within +-64, sizes <= 64, stroke width <= 66 in most runs (1 run in 256: +-300, sizes <= 300, widths <= 140), stack depth <= 3",
            "release arithmetic (overflow-checks off), default features",
            "a scenario whose fault-free run panics is skipped (totality is C08, not claimed)",
        ]
    }

    fn gen(&self, src: &mut Src) -> Scenario {
        let dev_kind = crate::exec::gen_dev_kind(src);
        let (caps, disc) = gen_caps_disc(src);
        // 1 run in 256: display-scale sizes and coordinates (up to 300, stroke widths up to 140)
        let huge = if crate::prop::deep() { src.draw(64) == 63 } else { src.draw(256) == 255 };
        let large = src.draw(5) < 3;
        let bbox = if huge {
            [-2000, -2000, 4000, 4000]
        } else if large {
            [-90, -90, 230, 230]
        } else {
            gen_small_box(src)
        };
        let dev = DevCfg { bbox, caps, disc };
        let stack = gen_stack(src, &dev.r(), dev_kind, 3, true, 24, false, false);
        let sm = crate::model::StackModel::new(dev.r(), dev_kind, &stack);
        let top_kind = sm.top_kind();
        let mut knobs = gen_knobs(src, top_kind.mask(), true);
        if huge {
            knobs.scale = 300;
            knobs.max_width = 140;
        }
        knobs.aim_at(&sm.top_box());
        let drawable = gen_drawable(src, &knobs, top_kind.bits());
        let pick = src.draw(1 << 16);
        Scenario {
            dev,
            dev_kind,
            stack,
            drawable,
            pick,
        }
    }

    fn exec(&self, sc: &Scenario, opts: &Opts) -> RunOut {
        let mut out = RunOut::default();
        out.scen_hash = det_hash(sc);
        out.lattice = (sc.dev.lattice() * 4 + sc.stack.len() as u32) * DrawableSpec::KINDS + sc.drawable.kind_index();
        let mut trace = Hash64::new();
        trace.u64(out.scen_hash);
        let kind = sc.drawable.kind();
        out.probes |= probe(&format!("kind_{}", kind));
        if let DrawableSpec::Styled { style, .. } = &sc.drawable {
            if style.dotted {
                out.probes |= probe("dotted_rectangle");
            }
        }
        if sc.dev.caps & crate::dev::CAP_SOLID != 0 {
            out.probes |= probe("device_native_fill_solid");
        }
        if sc.dev.caps & crate::dev::CAP_CONTIG != 0 {
            out.probes |= probe("device_native_fill_contiguous");
        }
        if sc.dev.caps == 0 {
            out.probes |= probe("device_draw_iter_only");
        }
        if sc.stack.iter().any(|a| matches!(a, Ad::ColorConverted)) {
            out.probes |= probe("color_converted_in_stack");
        }

        let base_cfg = |fault: Option<Fault>| RunCfg {
            dev: &sc.dev,
            dev_kind: sc.dev_kind,
            stack: &sc.stack,
            fault,
            log_items: true,
            record_memory: false,
            token_base: 0x7A00_0000_0000_0000 ^ (out.scen_hash & 0x0000_FFFF_FFFF_0000),
        };

        if opts.describe {
            out.desc = Some(
                J::obj()
                    .set("device", sc.dev.to_json().set("colour", J::s(sc.dev_kind.name())))
                    .set("stack_device_first", stack_json(&sc.stack))
                    .set("drawable", sc.drawable.to_json()),
            );
        }

        // 1. fault-free run
        let free: DrawRun = run_drawable(&base_cfg(None), &sc.drawable, Path::Draw);
        out.calls += free.st.n_calls;
        out.items += free.st.n_items;
        trace.u64(free.st.trace.finish());
        out.shape_hash = free.st.shape.finish();
        if opts.describe {
            out.trace = free.st.describe_calls(60);
        }
        match &free.result {
            Err(p) => {
                out.skipped = Some("fault_free_run_panicked");
                trace.str(p);
                out.trace_hash = trace.finish();
                return out;
            }
            Ok(Err(e)) => {
                let class = if e.0 == BUDGET_TOKEN { "step_budget" } else { "err_without_fault" };
                out.violation = Some(
                    Violation::new(
                        class,
                        format!("fault-free run of {} returned Err({:#x}) after {} device calls", kind, e.0, free.st.n_calls),
                    )
                    .fact("kind", kind),
                );
                out.trace_hash = trace.finish();
                return out;
            }
            Ok(Ok(_)) => {}
        }
        let n = free.st.n_calls;
        if n == 1 {
            out.probes |= probe("single_call_drawable");
        }

        // 2. fault positions
        let mut ks: Vec<u64> = Vec::new();
        if n <= 96 {
            ks.extend(1..=n);
        } else {
            out.probes |= probe("n_calls_over_96_sampled");
            ks.extend(1..=32);
            ks.extend(n - 31..=n);
            let mut s = sc.pick as u64 ^ 0x5EED;
            for _ in 0..32 {
                let k = 33 + crate::rng::splitmix64(&mut s) % (n - 64);
                ks.push(k);
            }
            ks.sort();
            ks.dedup();
        }
        let has_clip_slow = sc.stack.iter().any(|a| matches!(a, Ad::Clipped(_)));
        let text_two_lines = matches!(&sc.drawable, DrawableSpec::Text(t) if t.text.contains('\n') && t.entry == TextEntry::TextDraw);
        let text_deco = matches!(&sc.drawable, DrawableSpec::Text(t) if t.underline != Deco::None || t.strike != Deco::None || (t.font == 2 && t.bg.is_some()));

        let mut any_nontrivial = false;
        'outer: for &k in &ks {
            let rec = &free.st.calls[(k - 1) as usize];
            let mut items: Vec<Option<u64>> = vec![None];
            let stream = matches!(rec.executed_by, Method::DrawIter | Method::FillContiguous);
            if stream {
                let p = rec.pulled;
                let mut js = vec![0u64, 1, p / 2, p.saturating_sub(1), p];
                js.retain(|j| *j <= p);
                js.sort();
                js.dedup();
                // with DrainBounded or surplus pulls the end may not be probed by fail_at_item; harmless
                items.extend(js.into_iter().map(Some));
            }
            for at_item in items {
                for sticky in [false, true] {
                    let fault = Fault { at_call: k, at_item, sticky };
                    let cfg = base_cfg(Some(fault));
                    let run = run_drawable(&cfg, &sc.drawable, Path::Draw);
                    if run.inconclusive {
                        // an unbounded consumer met an endless stream (see exec.rs): nothing to conclude
                        continue;
                    }
                    out.sub_evals += 1;
                    out.calls += run.st.n_calls;
                    out.items += run.st.n_items;
                    trace.u64(run.st.trace.finish());
                    let fi = if at_item.is_some() { 1 } else { 0 };
                    out.faults_configured[fi] += 1;
                    if sticky {
                        out.faults_configured[2] += 1;
                    }
                    let fired = run.st.faults_fired > 0;
                    if fired {
                        out.faults_fired[fi] += 1;
                        if sticky {
                            out.faults_fired[2] += 1;
                            out.probes |= probe("fault_in_sticky_mode");
                        }
                        if n >= 2 || at_item.map_or(false, |j| j > 0) {
                            any_nontrivial = true;
                        }
                        if k == 1 {
                            out.probes |= probe("fault_on_first_call");
                        }
                        if k == n {
                            out.probes |= probe("fault_on_last_call");
                        }
                        if k > 1 && k < n {
                            out.probes |= probe("fault_on_middle_call");
                        }
                        if let Some(j) = at_item {
                            if j > 0 && j < rec.pulled {
                                out.probes |= probe("fault_mid_stream");
                            }
                            if j == rec.pulled {
                                out.probes |= probe("fault_at_stream_end");
                            }
                        }
                        if rec.executed_by != rec.method {
                            out.probes |= probe("fault_in_default_chain");
                        }
                        if sc.stack.len() == 3 {
                            out.probes |= probe("fault_below_stack_depth_3");
                        }
                        if has_clip_slow && rec.method == Method::FillContiguous {
                            out.probes |= probe("fault_below_clipped_slow_path");
                        }
                        if text_two_lines && k > 1 {
                            out.probes |= probe("fault_in_second_text_line");
                        }
                        if text_deco && rec.method == Method::FillSolid {
                            out.probes |= probe("fault_in_text_decoration_or_spacing");
                        }
                    }

                    let where_ = format!(
                        "k={} of n={}, item={}, {}",
                        k,
                        n,
                        at_item.map(|j| j.to_string()).unwrap_or_else(|| "-".into()),
                        if sticky { "sticky" } else { "recovering" }
                    );
                    let mk = |class: &'static str, msg: String| {
                        Violation::new(class, format!("{} [{}; fault at {}]", msg, kind, where_))
                            .fact("kind", kind)
                            .fact("k", k.to_string())
                            .fact("n", n.to_string())
                            .fact("item", at_item.map(|j| j.to_string()).unwrap_or_else(|| "none".into()))
                            .fact("sticky", sticky.to_string())
                    };
                    let token = run.st.token_for(k);
                    let v: Option<Violation> = if !fired {
                        // the fault position was not reached: the run must then equal the fault-free run
                        match &run.result {
                            Ok(Ok(_)) if run.st.n_calls == n => None,
                            _ => Some(mk(
                                "prefix_differs",
                                format!(
                                    "injected fault never fired but the run differs from the fault-free run ({} calls instead of {})",
                                    run.st.n_calls, n
                                ),
                            )),
                        }
                    } else {
                        match &run.result {
                            Err(p) => Some(mk("panic_instead_of_err", format!("panicked instead of returning the error: {}", p))),
                            Ok(Ok(_)) => Some(mk(
                                "ok_instead_of_err",
                                format!("draw returned Ok although device call #{} returned Err({:#x})", k, token),
                            )),
                            Ok(Err(e)) if e.0 == BUDGET_TOKEN => Some(mk("step_budget", "operation did not complete within the step budget".into())),
                            Ok(Err(e)) if e.0 != token => Some(mk(
                                "wrong_error",
                                format!("draw returned Err({:#x}) but the failing call #{} returned Err({:#x})", e.0, k, token),
                            )),
                            Ok(Err(_)) => {
                                if run.st.calls_after_failure > 0 {
                                    let idx = k as usize; // first call after the failing one
                                    let d = if idx < run.st.calls.len() { run.st.describe_call(idx) } else { String::new() };
                                    Some(mk(
                                        "call_after_failure",
                                        format!(
                                            "{} call(s) arrived at the device after call #{} had returned Err({:#x}); first: {}",
                                            run.st.calls_after_failure, k, token, d
                                        ),
                                    ))
                                } else {
                                    // prefix comparison with the fault-free run
                                    let mut bad: Option<String> = None;
                                    if run.st.calls.len() as u64 != k {
                                        bad = Some(format!("{} calls logged, expected {}", run.st.calls.len(), k));
                                    } else {
                                        for i in 0..(k as usize) {
                                            let a = &free.st.calls[i];
                                            let b = &run.st.calls[i];
                                            if !same_call_prefix(a, b) {
                                                bad = Some(format!(
                                                    "call #{} differs: fault-free '{}' vs faulted '{}'",
                                                    i + 1,
                                                    free.st.describe_call(i),
                                                    run.st.describe_call(i)
                                                ));
                                                break;
                                            }
                                            if i + 1 < k as usize {
                                                if a.items != b.items || a.pulled != b.pulled {
                                                    bad = Some(format!("items of call #{} differ from the fault-free run", i + 1));
                                                    break;
                                                }
                                            } else {
                                                // the failing call: the items it pulled must be a prefix
                                                let m = b.items.len();
                                                if m > a.items.len() || a.items[..m] != b.items[..] {
                                                    bad = Some(format!(
                                                        "items pulled by the failing call #{} are not a prefix of the fault-free call's items",
                                                        i + 1
                                                    ));
                                                    break;
                                                }
                                                if let Some(j) = at_item {
                                                    if b.pulled != j {
                                                        bad = Some(format!("failing call pulled {} items, fault was planned at item {}", b.pulled, j));
                                                        break;
                                                    }
                                                }
                                            }
                                        }
                                    }
                                    bad.map(|m| mk("prefix_differs", m))
                                }
                            }
                        }
                    };
                    if let Some(v) = v {
                        if opts.describe {
                            out.trace.push(format!("--- faulted run ({}) ---", where_));
                            out.trace.extend(run.st.describe_calls(60));
                            out.trace.push(format!("result: {:?}", run.result));
                        }
                        trace.str(v.class);
                        out.violation = Some(v);
                        break 'outer;
                    }
                }
            }
        }
        out.nontrivial = any_nontrivial;
        let _ = R::empty();
        out.trace_hash = trace.finish();
        out
    }
}
