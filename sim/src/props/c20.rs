//! C20 — MockDisplay is a faithful test oracle.
//!
//! Draw histories under the four check-flag settings with faulty client requests (pixels outside
//! the display, pixels drawn twice); a forbidden request must panic — the panic is caught and the
//! operation counts as unacknowledged — and every observation (get_pixel on all cells,
//! affected_area, eq/diff, Debug/from_pattern) is compared with an independent 64x64 model.

use crate::dev::{ColorKind, SimColor, SimDisplay, SimError};
use crate::erased::{DynTarget, InfallibleTarget};
use crate::json::J;
use crate::model::{TOp, R};
use crate::prop::{Opts, Property, RunOut, Tier, Violation};
use crate::props::c03::{hint_mode, HOp, Vague};
use crate::rng::{det_hash, Hash64, Src};
use crate::runner::guarded;
use crate::workload::{draw_spec, gen_drawable, gen_knobs, DrawableSpec, Path};
use embedded_graphics::mock_display::{ColorMapping, MockDisplay};
use embedded_graphics::pixelcolor::{BinaryColor, Bgr555, Bgr565, Bgr888, Gray2, Gray4, Gray8, Rgb332, Rgb444, Rgb555, Rgb565, Rgb888};
use embedded_graphics::prelude::*;
use embedded_graphics::primitives::Rectangle;
use embedded_graphics::Pixel;

pub struct C20;

/// every colour type that has a MockDisplay character set (`ColorMapping`); the first six are
/// the original menu, the rest were appended so old tapes keep their meaning
pub const KINDS6: [ColorKind; 13] = [
    ColorKind::Binary,
    ColorKind::Gray2,
    ColorKind::Gray4,
    ColorKind::Gray8,
    ColorKind::Rgb565,
    ColorKind::Rgb888,
    ColorKind::Rgb332,
    ColorKind::Rgb444,
    ColorKind::Rgb555,
    ColorKind::Bgr555,
    ColorKind::Bgr565,
    ColorKind::Bgr888,
    ColorKind::User8,
];

/// The character set of the harness-defined colour: what a user of the library may write, with
/// characters of 1, 2, 3 and 4 bytes in UTF-8 ("every character a single pixel").
const USER_CHARS: [(char, u32); 7] = [('a', 0), ('\u{e9}', 1), ('\u{2591}', 2), ('\u{2588}', 3), ('\u{1D11E}', 4), ('Z', 5), ('\u{df}', 200)];

impl ColorMapping for crate::dev::Cu8 {
    fn char_to_color(c: char) -> Self {
        match USER_CHARS.iter().find(|(ch, _)| *ch == c) {
            Some((_, v)) => crate::dev::Cu8(*v as u8),
            None => panic!("Invalid char in pattern: '{}'", c),
        }
    }
    fn color_to_char(color: Self) -> char {
        USER_CHARS.iter().find(|(_, v)| *v == color.0 as u32).map_or('?', |(ch, _)| *ch)
    }
}

/// K R G B Y M C W from the documented channel layout: (red shift, red bits, green .., blue ..)
fn rgb_alphabet(rs: u32, rb: u32, gs: u32, gb: u32, bs: u32, bb: u32) -> Vec<(char, u32)> {
    let r = ((1u32 << rb) - 1) << rs;
    let g = ((1u32 << gb) - 1) << gs;
    let b = ((1u32 << bb) - 1) << bs;
    vec![('K', 0), ('R', r), ('G', g), ('B', b), ('Y', r | g), ('M', r | b), ('C', g | b), ('W', r | g | b)]
}

const N: usize = 64;

/// The documented character sets, written down independently of /repo: (char, raw colour).
pub fn alphabet(kind: ColorKind) -> Vec<(char, u32)> {
    match kind {
        ColorKind::Binary => vec![('.', 0), ('#', 1)],
        ColorKind::Gray2 => (0..4u32).map(|i| (char::from_digit(i, 16).unwrap().to_ascii_uppercase(), i)).collect(),
        ColorKind::Gray4 => (0..16u32).map(|i| (char::from_digit(i, 16).unwrap().to_ascii_uppercase(), i)).collect(),
        ColorKind::Gray8 => (0..16u32).map(|i| (char::from_digit(i, 16).unwrap().to_ascii_uppercase(), i * 0x11)).collect(),
        ColorKind::Rgb565 => vec![
            ('K', 0x0000),
            ('R', 0xF800),
            ('G', 0x07E0),
            ('B', 0x001F),
            ('Y', 0xFFE0),
            ('M', 0xF81F),
            ('C', 0x07FF),
            ('W', 0xFFFF),
        ],
        ColorKind::Rgb888 => vec![
            ('K', 0x000000),
            ('R', 0xFF0000),
            ('G', 0x00FF00),
            ('B', 0x0000FF),
            ('Y', 0xFFFF00),
            ('M', 0xFF00FF),
            ('C', 0x00FFFF),
            ('W', 0xFFFFFF),
        ],
        ColorKind::C32 | ColorKind::User2 | ColorKind::UserA => vec![],
        ColorKind::Rgb332 => rgb_alphabet(5, 3, 2, 3, 0, 2),
        ColorKind::Rgb444 => rgb_alphabet(8, 4, 4, 4, 0, 4),
        ColorKind::Rgb555 => rgb_alphabet(10, 5, 5, 5, 0, 5),
        ColorKind::Bgr555 => rgb_alphabet(0, 5, 5, 5, 10, 5),
        ColorKind::Bgr565 => rgb_alphabet(0, 5, 5, 6, 11, 5),
        ColorKind::Bgr888 => rgb_alphabet(0, 8, 8, 8, 16, 8),
        ColorKind::User8 => USER_CHARS.to_vec(),
    }
}

#[derive(Clone, Debug, Hash)]
pub enum Step {
    Target(HOp),
    DrawPixel { p: [i32; 2], c: u32 },
    Drawable(DrawableSpec),
    SetPixel { p: [i32; 2], c: Option<u32> },
    AllowOverdraw(bool),
    AllowOob(bool),
    /// compare with a second display: clone, optionally modified in one cell
    /// `flip_flags`: the clone's check flags are toggled before comparing (flags are not part of equality)
    CompareClone { modify: Option<([i32; 2], Option<u32>)>, flip_flags: bool },
    /// continue the history on a clone of the display (a clone must behave like the original,
    /// check flags included)
    ContinueOnClone,
    /// `set_pixels(points, colour)` with in-range points
    SetPixels { pts: Vec<[i32; 2]>, c: Option<u32> },
    /// Debug -> parse -> from_pattern
    DebugRoundTrip,
    /// from_pattern of a seeded pattern (rows of equal width)
    FromPattern { rows: Vec<String> },
    /// the history continues on `MockDisplay::from_points(points, colour)`: a freshly constructed
    /// display has both checks enabled
    RestartFromPoints { pts: Vec<[i32; 2]>, c: u32 },
    /// the history continues on `from_pattern` of the current content (same cells, both checks
    /// enabled again); skipped when a cell holds a colour without a pattern character
    RestartFromPattern,
}

#[derive(Clone, Debug, Hash)]
pub struct Scenario {
    pub kind: ColorKind,
    pub steps: Vec<Step>,
}

const PROBES: &[&str] = &[
    "oob_allowed_and_requested",
    "oob_forbidden_and_requested",
    "overdraw_allowed_and_requested",
    "overdraw_forbidden_and_requested",
    "overdraw_within_one_batch",
    "overdraw_across_batches",
    "flag_changed_mid_history",
    "panic_then_continue",
    "expected_panic_observed",
    "pattern_ragged_height",
    "pattern_full_width",
    "pattern_with_spaces",
    "continued_on_constructed_display",
    "diff_green",
    "diff_red",
    "diff_blue",
    "diff_empty_equal",
    "affected_area_single_cell",
    "affected_area_full",
    "affected_area_empty",
    "debug_round_trip_done",
    "debug_has_question_mark",
    "clear_default",
    "fill_solid_default",
    "fill_contiguous_default",
    "draw_iter_batch",
    "draw_pixel_direct",
    "drawable_drawn",
    "set_pixel_none",
    "far_out_of_bounds_point",
    "point_on_last_row_or_column",
    "continued_on_clone",
    "assert_eq_passed",
    "assert_eq_panicked",
    "assert_pattern_passed",
    "assert_pattern_panicked",
];

const FAULTS: &[&str] = &["oob_request", "overdraw_request", "expected_panic"];

fn probe(name: &str) -> u64 {
    1u64 << PROBES.iter().position(|p| *p == name).expect("probe name")
}

struct Model {
    cells: Vec<Option<u32>>,
    allow_overdraw: bool,
    allow_oob: bool,
}

/// Outcome of applying an ordered write list with MockDisplay's documented sequential semantics.
struct Applied {
    panics: bool,
    /// cells (index) written before the offending pixel, with their old values
    touched: Vec<(usize, Option<u32>)>,
    oob: bool,
    overdraw: bool,
    overdraw_same_batch: bool,
}

impl Model {
    fn new() -> Self {
        Model {
            cells: vec![None; N * N],
            allow_overdraw: false,
            allow_oob: false,
        }
    }
    fn apply(&mut self, ws: &[(i64, i64, u32)]) -> Applied {
        let mut a = Applied {
            panics: false,
            touched: Vec::new(),
            oob: false,
            overdraw: false,
            overdraw_same_batch: false,
        };
        let mut in_batch = std::collections::BTreeSet::new();
        for (x, y, c) in ws {
            if *x < 0 || *y < 0 || *x >= N as i64 || *y >= N as i64 {
                a.oob = true;
                if !self.allow_oob {
                    a.panics = true;
                    return a;
                }
                continue;
            }
            let i = (*y as usize) * N + *x as usize;
            if self.cells[i].is_some() {
                a.overdraw = true;
                if in_batch.contains(&i) {
                    a.overdraw_same_batch = true;
                }
                if !self.allow_overdraw {
                    a.panics = true;
                    return a;
                }
            }
            in_batch.insert(i);
            a.touched.push((i, self.cells[i]));
            self.cells[i] = Some(*c);
        }
        a
    }
    fn affected_area(&self) -> R {
        let mut r: Option<R> = None;
        for (i, c) in self.cells.iter().enumerate() {
            if c.is_some() {
                let (x, y) = ((i % N) as i64, (i / N) as i64);
                match &mut r {
                    Some(r) => r.grow(x, y),
                    None => r = Some(R::new(x, y, x + 1, y + 1)),
                }
            }
        }
        r.unwrap_or(R::empty())
    }
}

fn hop_to_top(op: &HOp) -> TOp {
    match op {
        HOp::DrawIter(p) => TOp::DrawIter(p.clone()),
        HOp::FillContiguous { area, colours, repeat } => TOp::FillContiguous {
            area: *area,
            colours: colours.clone(),
            repeat: *repeat,
        },
        HOp::FillSolid { area, colour } => TOp::FillSolid {
            area: *area,
            colour: *colour,
        },
        HOp::Clear(c) => TOp::Clear(*c),
    }
}

/// Issue a primitive target operation on any target of colour `C`.
fn issue<C: SimColor, T: DrawTarget<Color = C, Error = SimError>>(d: &mut T, top: &TOp) -> Result<(), SimError> {
    match top {
        TOp::DrawIter(px) => d.draw_iter(Vague::new(px.iter().map(|(x, y, c)| Pixel(Point::new(*x, *y), C::from_u32(*c))), hint_mode(top))),
        TOp::FillContiguous { area, colours, repeat } => {
            let a = crate::erased::rect_of(area);
            let it = colours.iter().map(|c| C::from_u32(*c));
            match repeat {
                Some(r) => d.fill_contiguous(&a, Vague::new(it.chain(core::iter::repeat(C::from_u32(*r))), hint_mode(top))),
                None => d.fill_contiguous(&a, Vague::new(it, hint_mode(top))),
            }
        }
        TOp::FillSolid { area, colour } => d.fill_solid(&crate::erased::rect_of(area), C::from_u32(*colour)),
        TOp::Clear(c) => d.clear(C::from_u32(*c)),
    }
}

fn step_json(s: &Step) -> J {
    match s {
        Step::Target(op) => hop_to_top(op).to_json(),
        Step::DrawPixel { p, c } => J::obj().set("draw_pixel", J::ints(&[p[0] as i64, p[1] as i64, *c as i64])),
        Step::Drawable(d) => J::obj().set("draw", d.to_json()),
        Step::SetPixel { p, c } => J::obj().set(
            "set_pixel",
            J::Arr(vec![J::Int(p[0] as i64), J::Int(p[1] as i64), c.map(|c| J::Int(c as i64)).unwrap_or(J::Null)]),
        ),
        Step::AllowOverdraw(b) => J::obj().set("set_allow_overdraw", J::Bool(*b)),
        Step::AllowOob(b) => J::obj().set("set_allow_out_of_bounds_drawing", J::Bool(*b)),
        Step::CompareClone { modify, flip_flags } => J::obj()
            .set(
                "compare_with_clone",
                match modify {
                    None => J::s("unmodified"),
                    Some((p, c)) => J::Arr(vec![J::Int(p[0] as i64), J::Int(p[1] as i64), c.map(|c| J::Int(c as i64)).unwrap_or(J::Null)]),
                },
            )
            .set("clone_flags_toggled", J::Bool(*flip_flags)),
        Step::ContinueOnClone => J::s("continue_on_clone"),
        Step::SetPixels { pts, c } => J::obj()
            .set("set_pixels", J::Arr(pts.iter().map(|p| J::ints(&p[..])).collect()))
            .set("colour", c.map(|c| J::Int(c as i64)).unwrap_or(J::Null)),
        Step::DebugRoundTrip => J::s("debug_round_trip"),
        Step::FromPattern { rows } => J::obj().set("from_pattern", J::Arr(rows.iter().map(|r| J::s(r.clone())).collect())),
        Step::RestartFromPoints { pts, c } => J::obj()
            .set("continue_on_from_points", J::Arr(pts.iter().map(|p| J::ints(&p[..])).collect()))
            .set("colour", J::Int(*c as i64)),
        Step::RestartFromPattern => J::s("continue_on_from_pattern_of_current_content"),
    }
}

fn read_cells<C: SimColor>(d: &MockDisplay<C>) -> Vec<Option<u32>> {
    let mut v = Vec::with_capacity(N * N);
    for y in 0..N as i32 {
        for x in 0..N as i32 {
            v.push(d.get_pixel(Point::new(x, y)).map(|c| c.to_u32()));
        }
    }
    v
}

fn first_cell_diff(a: &[Option<u32>], b: &[Option<u32>]) -> Option<(usize, usize, Option<u32>, Option<u32>)> {
    a.iter()
        .zip(b.iter())
        .position(|(x, y)| x != y)
        .map(|i| (i % N, i / N, a[i], b[i]))
}

fn run_typed<C: SimColor + ColorMapping>(sc: &Scenario, opts: &Opts) -> RunOut {
    let mut out = RunOut::default();
    out.scen_hash = det_hash(sc);
    let mut trace = Hash64::new();
    trace.u64(out.scen_hash);
    let kind_idx = KINDS6.iter().position(|k| *k == sc.kind).unwrap() as u32;
    let alpha = alphabet(sc.kind);
    let char_of = |c: u32| -> char { alpha.iter().find(|(_, v)| *v == c).map(|(ch, _)| *ch).unwrap_or('?') };
    if opts.describe {
        out.desc = Some(
            J::obj()
                .set("colour", J::s(sc.kind.name()))
                .set("steps", J::Arr(sc.steps.iter().map(step_json).collect())),
        );
    }
    let mut display: MockDisplay<C> = MockDisplay::new();
    let mut model = Model::new();
    let mut flags_seen = 0u32;
    let mut panicked_before = false;
    let mut any_write = false;
    let mut batches_written = 0u32;

    let mk = |si: usize, class: &'static str, msg: String| {
        Violation::new(class, format!("step {}: {} [MockDisplay<{}>]", si + 1, msg, sc.kind.name())).fact("colour", sc.kind.name())
    };

    for (si, step) in sc.steps.iter().enumerate() {
        out.sub_evals += 1;
        let mut viol: Option<Violation> = None;
        // ordered write list of a drawing step
        let mut writes: Option<Vec<(i64, i64, u32)>> = None;
        match step {
            Step::Target(op) => {
                let top = hop_to_top(op);
                match &top {
                    TOp::DrawIter(_) => out.probes |= probe("draw_iter_batch"),
                    TOp::FillContiguous { .. } => out.probes |= probe("fill_contiguous_default"),
                    TOp::FillSolid { .. } => out.probes |= probe("fill_solid_default"),
                    TOp::Clear(_) => out.probes |= probe("clear_default"),
                }
                // the ordered pixel sequence a draw_iter-only 64x64 target receives for this
                // operation (the same trait defaults run on both sides)
                let mut dev = SimDisplay::<C>::with_memory(Rectangle::new(Point::zero(), Size::new(64, 64)), 0, crate::dev::Discipline::ZipPointsFirst, false);
                dev.st.log_items = true;
                let r = guarded(|| issue::<C, _>(&mut dev, &top));
                match r {
                    Ok(Ok(())) => {
                        let mut ws = Vec::new();
                        for c in &dev.st.calls {
                            for (x, y, col) in &c.items {
                                ws.push((*x as i64, *y as i64, *col));
                            }
                        }
                        writes = Some(ws);
                    }
                    _ => {
                        out.skipped = Some("operation_failed_on_reference_device");
                        break;
                    }
                }
            }
            Step::DrawPixel { p, c } => {
                out.probes |= probe("draw_pixel_direct");
                writes = Some(vec![(p[0] as i64, p[1] as i64, *c)]);
            }
            Step::Drawable(spec) => {
                out.probes |= probe("drawable_drawn");
                // the ordered pixel sequence a draw_iter-only 64x64 target receives
                let mut dev = SimDisplay::<C>::with_memory(Rectangle::new(Point::zero(), Size::new(64, 64)), 0, crate::dev::Discipline::ZipPointsFirst, false);
                dev.st.log_items = true;
                let r = guarded(|| draw_spec::<C, _>(spec, Path::Draw, &mut dev));
                match r {
                    Ok(Ok(_)) => {
                        let mut ws = Vec::new();
                        for c in &dev.st.calls {
                            for (x, y, col) in &c.items {
                                ws.push((*x as i64, *y as i64, *col));
                            }
                        }
                        writes = Some(ws);
                    }
                    _ => {
                        out.skipped = Some("drawable_failed_on_reference_device");
                        break;
                    }
                }
            }
            _ => {}
        }

        if let Some(ws) = writes {
            let before_cells = model.cells.clone();
            let applied = model.apply(&ws);
            if applied.oob {
                out.faults_configured[0] += 1;
                out.faults_fired[0] += 1;
                out.probes |= probe(if model.allow_oob { "oob_allowed_and_requested" } else { "oob_forbidden_and_requested" });
            }
            if applied.overdraw {
                out.faults_configured[1] += 1;
                out.faults_fired[1] += 1;
                out.probes |= probe(if model.allow_overdraw {
                    "overdraw_allowed_and_requested"
                } else {
                    "overdraw_forbidden_and_requested"
                });
                if applied.overdraw_same_batch {
                    out.probes |= probe("overdraw_within_one_batch");
                } else if batches_written > 0 {
                    out.probes |= probe("overdraw_across_batches");
                }
            }
            if ws.iter().any(|(x, y, _)| x.abs() > 1000 || y.abs() > 1000) {
                out.probes |= probe("far_out_of_bounds_point");
            }
            if ws.iter().any(|(x, y, _)| *x == 63 || *y == 63) {
                out.probes |= probe("point_on_last_row_or_column");
            }
            if !applied.touched.is_empty() {
                any_write = true;
                batches_written += 1;
            }
            if panicked_before {
                out.probes |= probe("panic_then_continue");
            }
            // execute on the real display
            let r: Result<Result<(), SimError>, String> = match step {
                Step::Target(op) => {
                    let top = hop_to_top(op);
                    guarded(|| {
                        let mut t = InfallibleTarget(&mut display);
                        let mut d = DynTarget::new(&mut t);
                        issue::<C, _>(&mut d, &top)
                    })
                }
                Step::DrawPixel { p, c } => guarded(|| {
                    display.draw_pixel(Point::new(p[0], p[1]), C::from_u32(*c));
                    Ok(())
                }),
                Step::Drawable(spec) => guarded(|| {
                    let mut t = InfallibleTarget(&mut display);
                    let mut d = DynTarget::new(&mut t);
                    draw_spec::<C, _>(spec, Path::Draw, &mut d).map(|_| ())
                }),
                _ => unreachable!(),
            };
            let observed_panic = r.is_err();
            if applied.panics {
                out.faults_configured[2] += 1;
            }
            if observed_panic && applied.panics {
                out.faults_fired[2] += 1;
                out.probes |= probe("expected_panic_observed");
            }
            if observed_panic != applied.panics {
                viol = Some(if observed_panic {
                    mk(
                        si,
                        "unexpected_panic",
                        format!(
                            "drawing panicked ({}) although no pixel was outside the display or drawn twice under the current flags (allow_overdraw={}, allow_out_of_bounds_drawing={})",
                            r.as_ref().err().unwrap(),
                            model.allow_overdraw,
                            model.allow_oob
                        ),
                    )
                } else {
                    mk(
                        si,
                        "missing_panic",
                        format!(
                            "drawing did not panic although a pixel was {} (allow_overdraw={}, allow_out_of_bounds_drawing={})",
                            if applied.oob && !model.allow_oob { "outside the display" } else { "drawn a second time" },
                            model.allow_overdraw,
                            model.allow_oob
                        ),
                    )
                });
            }
            let cells = match guarded(|| read_cells(&display)) {
                Ok(c) => c,
                Err(e) => {
                    if viol.is_none() {
                        viol = Some(mk(si, "unexpected_panic", format!("get_pixel on an in-range point panicked: {}", e)));
                    }
                    model.cells.clone()
                }
            };
            if viol.is_none() {
                if applied.panics {
                    panicked_before = true;
                    // unacknowledged operation: cells addressed before the offending pixel may hold
                    // the old or the new value, every other cell must be unchanged
                    for (i, c) in cells.iter().enumerate() {
                        let old = before_cells[i];
                        let new = model.cells[i];
                        if *c != old && *c != new {
                            viol = Some(mk(
                                si,
                                "state_after_panic",
                                format!(
                                    "after the (expected) panic cell ({},{}) holds {:?}; it held {:?} before and the interrupted operation would have written {:?}",
                                    i % N,
                                    i / N,
                                    c,
                                    old,
                                    new
                                ),
                            ));
                            break;
                        }
                    }
                    // resynchronise the model with what the display kept
                    model.cells = cells.clone();
                } else if let Some((x, y, want, got)) = first_cell_diff(&model.cells, &cells) {
                    viol = Some(mk(
                        si,
                        "get_pixel_mismatch",
                        format!("get_pixel(({},{})) returned {:?}, model says {:?}", x, y, got, want),
                    ));
                }
            }
        } else {
            match step {
                Step::SetPixel { p, c } => {
                    if c.is_none() {
                        out.probes |= probe("set_pixel_none");
                    }
                    model.cells[p[1] as usize * N + p[0] as usize] = *c;
                    let r = guarded(|| display.set_pixel(Point::new(p[0], p[1]), c.map(C::from_u32)));
                    if let Err(e) = r {
                        viol = Some(mk(si, "unexpected_panic", format!("set_pixel on an in-range point panicked: {}", e)));
                    }
                }
                Step::AllowOverdraw(b) => {
                    model.allow_overdraw = *b;
                    display.set_allow_overdraw(*b);
                    flags_seen += 1;
                    if any_write {
                        out.probes |= probe("flag_changed_mid_history");
                    }
                }
                Step::AllowOob(b) => {
                    model.allow_oob = *b;
                    display.set_allow_out_of_bounds_drawing(*b);
                    flags_seen += 1;
                    if any_write {
                        out.probes |= probe("flag_changed_mid_history");
                    }
                }
                Step::ContinueOnClone => {
                    out.probes |= probe("continued_on_clone");
                    // alternately `clone()` and `clone_from()` into a display whose flags differ
                    // (a clone must behave like the original, check flags included)
                    let via_clone_from = si % 2 == 1;
                    match guarded(|| {
                        if via_clone_from {
                            let mut t = MockDisplay::<C>::new();
                            t.set_allow_overdraw(!model.allow_overdraw);
                            t.set_allow_out_of_bounds_drawing(!model.allow_oob);
                            t.clone_from(&display);
                            t
                        } else {
                            display.clone()
                        }
                    }) {
                        Ok(c) => display = c,
                        Err(e) => viol = Some(mk(si, "unexpected_panic", format!("clone / clone_from panicked: {}", e))),
                    }
                }
                Step::SetPixels { pts, c } => {
                    for p in pts {
                        model.cells[p[1] as usize * N + p[0] as usize] = *c;
                    }
                    let r = guarded(|| display.set_pixels(pts.iter().map(|p| Point::new(p[0], p[1])), c.map(C::from_u32)));
                    if let Err(e) = r {
                        viol = Some(mk(si, "unexpected_panic", format!("set_pixels on in-range points panicked: {}", e)));
                    }
                }
                Step::CompareClone { modify, flip_flags } => {
                    let mut other = display.clone();
                    if *flip_flags {
                        other.set_allow_overdraw(!model.allow_overdraw);
                        other.set_allow_out_of_bounds_drawing(!model.allow_oob);
                    }
                    let mut other_cells = model.cells.clone();
                    if let Some((p, c)) = modify {
                        if let Err(e) = guarded(|| other.set_pixel(Point::new(p[0], p[1]), c.map(C::from_u32))) {
                            viol = Some(mk(si, "unexpected_panic", format!("set_pixel on an in-range point panicked: {}", e)));
                        }
                        other_cells[p[1] as usize * N + p[0] as usize] = *c;
                    }
                    let r = if viol.is_some() {
                        Ok((model.cells == other_cells, vec![None; N * N]))
                    } else {
                        guarded(|| {
                        let eq = display == other;
                        let diff = display.diff(&other);
                        let dcells = read_cells(&diff);
                        (eq, dcells)
                        })
                    };
                    match r {
                        Err(e) => viol = Some(mk(si, "unexpected_panic", format!("eq/diff panicked: {}", e))),
                        Ok(_) if viol.is_some() => {}
                        Ok((eq, dcells)) => {
                            let all_agree = model.cells == other_cells;
                            if eq != all_agree {
                                viol = Some(mk(si, "eq_mismatch", format!("`a == b` is {} but the cells {}", eq, if all_agree { "all agree" } else { "differ" })));
                            }
                            for i in 0..N * N {
                                let want = match (model.cells[i], other_cells[i]) {
                                    (Some(_), None) => {
                                        out.probes |= probe("diff_green");
                                        Some(0x00FF00)
                                    }
                                    (None, Some(_)) => {
                                        out.probes |= probe("diff_red");
                                        Some(0xFF0000)
                                    }
                                    (Some(a), Some(b)) if a != b => {
                                        out.probes |= probe("diff_blue");
                                        Some(0x0000FF)
                                    }
                                    _ => None,
                                };
                                if dcells[i] != want && viol.is_none() {
                                    viol = Some(mk(
                                        si,
                                        "diff_mismatch",
                                        format!("diff cell ({},{}) is {:?}, expected {:?}", i % N, i / N, dcells[i], want),
                                    ));
                                }
                            }
                            if all_agree {
                                out.probes |= probe("diff_empty_equal");
                            }
                            // the judge functions tests actually call: assert_eq / assert_eq_with_message
                            // must panic exactly when the cells differ (alternating by step index, no tape draw)
                            if viol.is_none() {
                                let with_msg = si % 2 == 1;
                                let pr = guarded(|| {
                                    if with_msg {
                                        display.assert_eq_with_message(&other, |f| write!(f, "egsim"))
                                    } else {
                                        display.assert_eq(&other)
                                    }
                                });
                                out.probes |= probe(if pr.is_ok() { "assert_eq_passed" } else { "assert_eq_panicked" });
                                if pr.is_ok() != all_agree {
                                    viol = Some(mk(
                                        si,
                                        "assert_mismatch",
                                        format!(
                                            "{} {} although the cells {}",
                                            if with_msg { "assert_eq_with_message" } else { "assert_eq" },
                                            if pr.is_ok() { "returned" } else { "panicked" },
                                            if all_agree { "all agree" } else { "differ" }
                                        ),
                                    ));
                                }
                            }
                        }
                    }
                }
                Step::DebugRoundTrip => {
                    let r = guarded(|| format!("{:?}", display));
                    match r {
                        Err(e) => viol = Some(mk(si, "unexpected_panic", format!("Debug panicked: {}", e))),
                        Ok(text) => {
                            // expected text, built from the model and the independent alphabet
                            let empty_rows = (0..N).rev().take_while(|y| model.cells[y * N..(y + 1) * N].iter().all(|c| c.is_none())).count();
                            let mut want = String::from("MockDisplay[\n");
                            let mut question = false;
                            for y in 0..N - empty_rows {
                                for x in 0..N {
                                    let ch = match model.cells[y * N + x] {
                                        None => ' ',
                                        Some(c) => char_of(c),
                                    };
                                    if ch == '?' {
                                        question = true;
                                    }
                                    want.push(ch);
                                }
                                want.push('\n');
                            }
                            if empty_rows > 0 {
                                want.push_str(&format!("({} empty rows skipped)\n", empty_rows));
                            }
                            want.push_str("]\n");
                            if question {
                                out.probes |= probe("debug_has_question_mark");
                            }
                            if text != want {
                                let line = text.lines().zip(want.lines()).position(|(a, b)| a != b);
                                viol = Some(mk(si, "debug_mismatch", format!("Debug output differs from the expected rendering (first differing line: {:?})", line)));
                            } else if !question {
                                // parse back: the rows between the header and the trailer
                                let rows: Vec<&str> = text.lines().skip(1).take(N - empty_rows).collect();
                                // the display built from the pattern is a display made in a different
                                // way (never written through a setter): it must compare equal to the
                                // drawn one, both ways round, with an empty diff
                                let r2 = guarded(|| {
                                    let pd = MockDisplay::<C>::from_pattern(&rows);
                                    let eqs = (pd == display, display == pd);
                                    let diff_cells = read_cells(&display.diff(&pd));
                                    (read_cells(&pd), eqs, diff_cells)
                                });
                                match r2 {
                                    Err(e) => viol = Some(mk(si, "round_trip", format!("from_pattern(Debug rows) / comparison with it panicked: {}", e))),
                                    Ok((cells, eqs, diff_cells)) => {
                                        out.probes |= probe("debug_round_trip_done");
                                        if cells == model.cells {
                                            if eqs != (true, true) {
                                                viol = Some(mk(si, "eq_mismatch", format!("from_pattern(Debug output) holds the same cells as the display but `==` says {:?} (pattern == display, display == pattern)", eqs)));
                                            } else if diff_cells.iter().any(|c| c.is_some()) {
                                                viol = Some(mk(si, "diff_mismatch", "diff against from_pattern(Debug output) is not empty although all cells agree".to_string()));
                                            }
                                        }
                                        if let Some((x, y, want, got)) = first_cell_diff(&model.cells, &cells) {
                                            viol = Some(mk(
                                                si,
                                                "round_trip",
                                                format!("from_pattern(Debug output) has {:?} at ({},{}), the display has {:?}", got, x, y, want),
                                            ));
                                        }
                                    }
                                }
                                // assert_pattern: silent on the display's own rendering, panics on a
                                // rendering with one cell changed (first touched cell gets another
                                // character; an empty display gets a character at (0,0))
                                if viol.is_none() && !alpha.is_empty() {
                                    let own: Vec<String> = rows.iter().map(|r| r.to_string()).collect();
                                    let with_msg = si % 2 == 1;
                                    let check = |pat: &Vec<String>| {
                                        let refs: Vec<&str> = pat.iter().map(|s| s.as_str()).collect();
                                        guarded(|| {
                                            if with_msg {
                                                display.assert_pattern_with_message(&refs, |f| write!(f, "egsim"))
                                            } else {
                                                display.assert_pattern(&refs)
                                            }
                                        })
                                    };
                                    if let Err(e) = check(&own) {
                                        let _ = e;
                                        viol = Some(mk(si, "assert_mismatch", "assert_pattern panicked on the rows of the display's own Debug output".to_string()));
                                    } else {
                                        out.probes |= probe("assert_pattern_passed");
                                        let mut changed = own.clone();
                                        match model.cells.iter().position(|c| c.is_some()) {
                                            Some(i) => {
                                                let (x, y) = (i % N, i / N);
                                                let cur = char_of(model.cells[i].unwrap());
                                                let other_ch = alpha.iter().map(|(ch, _)| *ch).find(|ch| *ch != cur).unwrap_or(' ');
                                                let mut row: Vec<char> = changed[y].chars().collect();
                                                row[x] = other_ch;
                                                changed[y] = row.into_iter().collect();
                                            }
                                            None => changed = vec![alpha[0].0.to_string()],
                                        }
                                        if check(&changed).is_ok() {
                                            viol = Some(mk(si, "assert_mismatch", "assert_pattern accepted a pattern that differs from the display in one cell".to_string()));
                                        } else {
                                            out.probes |= probe("assert_pattern_panicked");
                                        }
                                        // a pattern that stops short of the content (its rightmost touched
                                        // column cut off; or its lowest touched row) describes another picture
                                        if viol.is_none() {
                                            let rightmost = (0..N).rev().find(|x| (0..N).any(|y| model.cells[y * N + x].is_some()));
                                            if let Some(xr) = rightmost {
                                                let narrower: Vec<String> = own.iter().map(|r| r.chars().take(xr).collect()).collect();
                                                if check(&narrower).is_ok() {
                                                    viol = Some(mk(si, "assert_mismatch", format!("assert_pattern accepted the display's rendering cut to {} column(s) although column {} holds a drawn cell", xr, xr)));
                                                }
                                                let lowest = (0..N).rev().find(|y| (0..N).any(|x| model.cells[y * N + x].is_some())).unwrap();
                                                let shorter: Vec<String> = own.iter().take(lowest).cloned().collect();
                                                if viol.is_none() && check(&shorter).is_ok() {
                                                    viol = Some(mk(si, "assert_mismatch", format!("assert_pattern accepted the display's rendering cut to {} row(s) although row {} holds a drawn cell", lowest, lowest)));
                                                }
                                            }
                                        }
                                    }
                                }
                            }
                        }
                    }
                }
                Step::FromPattern { rows } => {
                    let refs: Vec<&str> = rows.iter().map(|s| s.as_str()).collect();
                    if rows.len() < N {
                        out.probes |= probe("pattern_ragged_height");
                    }
                    if rows.first().map_or(false, |r| r.len() == N) {
                        out.probes |= probe("pattern_full_width");
                    }
                    if rows.iter().any(|r| r.contains(' ')) {
                        out.probes |= probe("pattern_with_spaces");
                    }
                    let r = guarded(|| read_cells(&MockDisplay::<C>::from_pattern(&refs)));
                    match r {
                        Err(e) => viol = Some(mk(si, "unexpected_panic", format!("from_pattern of a valid pattern panicked: {}", e))),
                        Ok(cells) => {
                            let mut want = vec![None; N * N];
                            for (y, row) in rows.iter().enumerate() {
                                for (x, ch) in row.chars().enumerate() {
                                    if ch != ' ' {
                                        want[y * N + x] = alpha.iter().find(|(c, _)| *c == ch).map(|(_, v)| *v);
                                    }
                                }
                            }
                            if let Some((x, y, w, g)) = first_cell_diff(&want, &cells) {
                                viol = Some(mk(
                                    si,
                                    "from_pattern_mismatch",
                                    format!("from_pattern put {:?} at ({},{}), the pattern says {:?}", g, x, y, w),
                                ));
                            }
                        }
                    }
                }
                Step::RestartFromPoints { pts, c } => {
                    out.probes |= probe("continued_on_constructed_display");
                    let col = C::from_u32(*c);
                    match guarded(|| MockDisplay::<C>::from_points(pts.iter().map(|p| Point::new(p[0], p[1])), col)) {
                        Ok(d) => {
                            display = d;
                            model = Model::new();
                            for p in pts {
                                model.cells[p[1] as usize * N + p[0] as usize] = Some(*c);
                            }
                        }
                        Err(e) => viol = Some(mk(si, "unexpected_panic", format!("from_points with in-range points panicked: {}", e))),
                    }
                }
                Step::RestartFromPattern => {
                    let representable = model.cells.iter().all(|c| match c {
                        None => true,
                        Some(v) => alpha.iter().any(|(_, a)| a == v),
                    });
                    if representable {
                        out.probes |= probe("continued_on_constructed_display");
                        let rows: Vec<String> = (0..N)
                            .map(|y| (0..N).map(|x| model.cells[y * N + x].map_or(' ', |v| char_of(v))).collect())
                            .collect();
                        let refs: Vec<&str> = rows.iter().map(|s| s.as_str()).collect();
                        match guarded(|| MockDisplay::<C>::from_pattern(&refs)) {
                            Ok(d) => {
                                display = d;
                                model.allow_overdraw = false;
                                model.allow_oob = false;
                            }
                            Err(e) => viol = Some(mk(si, "unexpected_panic", format!("from_pattern of a valid 64x64 pattern panicked: {}", e))),
                        }
                    }
                }
                _ => {}
            }
            if viol.is_none()
                && matches!(
                    step,
                    Step::SetPixel { .. } | Step::SetPixels { .. } | Step::ContinueOnClone | Step::RestartFromPoints { .. } | Step::RestartFromPattern
                )
            {
                let cells = match guarded(|| read_cells(&display)) {
                    Ok(c) => c,
                    Err(e) => {
                        viol = Some(mk(si, "unexpected_panic", format!("get_pixel on an in-range point panicked: {}", e)));
                        model.cells.clone()
                    }
                };
                if let Some((x, y, want, got)) = first_cell_diff(&model.cells, &cells) {
                    viol = Some(mk(si, "get_pixel_mismatch", format!("get_pixel(({},{})) returned {:?}, model says {:?}", x, y, got, want)));
                }
            }
        }
        // affected_area after every step
        if viol.is_none() {
            match guarded(|| display.affected_area()) {
                Err(e) => viol = Some(mk(si, "unexpected_panic", format!("affected_area panicked: {}", e))),
                Ok(a) => {
                    let got = R::from_rect(&a);
                    let want = model.affected_area();
                    if want.is_empty() {
                        out.probes |= probe("affected_area_empty");
                    } else if want.area() == 1 {
                        out.probes |= probe("affected_area_single_cell");
                    } else if want.area() == (N * N) as i64 {
                        out.probes |= probe("affected_area_full");
                    }
                    if !got.same_points(&want) {
                        viol = Some(mk(
                            si,
                            "affected_area",
                            format!("affected_area() is {:?}, the tight box of the touched cells is {:?}", got.to_arr(), want.to_arr()),
                        ));
                    }
                }
            }
        }
        let mut h = Hash64::new();
        for c in &model.cells {
            h.u64(c.map(|v| v as u64 + 1).unwrap_or(0));
        }
        trace.u64(h.finish());
        if let Some(v) = viol {
            trace.str(v.class);
            out.violation = Some(v);
            break;
        }
    }
    out.nontrivial = any_write;
    out.calls = sc.steps.len() as u64;
    out.lattice = kind_idx * 4 + (model.allow_overdraw as u32) * 2 + model.allow_oob as u32;
    let _ = flags_seen;
    let mut sh = Hash64::new();
    for s in &sc.steps {
        sh.u32(match s {
            Step::Target(HOp::DrawIter(_)) => 0,
            Step::Target(HOp::FillContiguous { .. }) => 1,
            Step::Target(HOp::FillSolid { .. }) => 2,
            Step::Target(HOp::Clear(_)) => 3,
            Step::DrawPixel { .. } => 4,
            Step::Drawable(d) => 10 + d.kind_index(),
            Step::SetPixel { .. } => 5,
            Step::AllowOverdraw(b) => 6 + *b as u32 * 100,
            Step::AllowOob(b) => 7 + *b as u32 * 100,
            Step::CompareClone { .. } => 8,
            Step::ContinueOnClone => 41,
            Step::SetPixels { .. } => 42,
            Step::DebugRoundTrip => 9,
            Step::FromPattern { .. } => 40,
            Step::RestartFromPoints { .. } => 43,
            Step::RestartFromPattern => 44,
        });
    }
    sh.u32(kind_idx);
    out.shape_hash = sh.finish();
    out.trace_hash = trace.finish();
    out
}

fn gen_pt(src: &mut Src) -> [i32; 2] {
    let one = |src: &mut Src| -> i32 {
        match src.draw(16) {
            0..=10 => src.draw(64) as i32,
            11 => 63,
            12 => 64 + src.draw(2) as i32,
            13 => -1 - src.draw(2) as i32,
            14 => [1000, -1000, 65536 + 5, i32::MAX, i32::MIN][src.draw(5) as usize],
            _ => src.draw(8) as i32,
        }
    };
    [one(src), one(src)]
}

fn gen_in_pt(src: &mut Src) -> [i32; 2] {
    match src.draw(4) {
        0 => [src.draw(8) as i32, src.draw(8) as i32],
        1 => [[0, 63][src.draw(2) as usize], [0, 63][src.draw(2) as usize]],
        _ => [src.draw(64) as i32, src.draw(64) as i32],
    }
}

fn gen_col(src: &mut Src, kind: ColorKind) -> u32 {
    let a = alphabet(kind);
    if src.draw(6) == 5 {
        // any raw value (outside the alphabet for Gray8 / RGB types most of the time)
        if kind.mask() <= 0xFFFF {
            src.draw(kind.mask() + 1)
        } else {
            src.u32_full() & kind.mask()
        }
    } else {
        a[src.draw(a.len() as u32) as usize].1
    }
}

impl Property for C20 {
    type Scenario = Scenario;

    fn id(&self) -> &'static str {
        "C20"
    }
    fn level(&self) -> &'static str {
        "exploration"
    }
    fn technique(&self) -> &'static str {
        "deterministic simulation: seeded draw histories with faulty client requests (out-of-bounds, overdraw) under all check-flag settings on the real MockDisplay; panics caught as unacknowledged operations; every observation compared with an independent reference model"
    }
    fn runs(&self, tier: Tier) -> u64 {
        match tier {
            Tier::Quick => 600_000,
            Tier::Thorough => 20_000_000,
        }
    }
    fn probe_names(&self) -> &'static [&'static str] {
        PROBES
    }
    fn fault_names(&self) -> &'static [&'static str] {
        FAULTS
    }
    fn lattice_size(&self) -> u32 {
        13 * 4
    }
    fn lattice_desc(&self) -> &'static str {
        "colour type (13: every library type with a ColorMapping + one user-defined with non-ASCII pattern characters) x final (allow_overdraw, allow_out_of_bounds_drawing) setting (4)"
    }
    fn sub_eval_name(&self) -> &'static str {
        "history_steps_checked"
    }
    fn rule(&self) -> &'static str {
        "one seeded history = MockDisplay<C> for one of 13 colour types (12 library types with a character set + a harness-defined one with non-ASCII pattern characters) + 1..10 steps: draw_iter batches, draw_pixel, fill_solid / fill_contiguous / clear (trait defaults), drawables, set_pixel / set_pixels (Some/None), continuing on a clone() / clone_from() / on from_points(..) / on from_pattern of the current content, flag changes (all four combinations, also mid-history), comparison with a (modified) clone via ==, diff, assert_eq(_with_message), Debug -> from_pattern round trip (the pattern-built display must equal the drawn one; assert_pattern accepts it and rejects one changed cell), from_pattern of a seeded pattern; points inside, on the last row/column, just outside, negative and far outside; pixels repeated within a batch and across batches. After every step: panic observed iff predicted, get_pixel on all 4096 cells, affected_area == tight box. distinct = 64-bit hash of the decoded history; non-trivial = at least one cell written by a drawing operation"
    }
    fn assumptions(&self) -> Vec<&'static str> {
        vec![
            "get_pixel is only called with in-range points (its behaviour outside the display is not part of the property)",
            "the state left by a panicking operation is unspecified: cells it addressed before the offending pixel may hold the old or the new value; the model is resynchronised afterwards",
            "the write sequence of a drawable is taken from a draw_iter-only SimDisplay of the same size",
            "character sets per colour type are written down independently in the harness",
        ]
    }

    fn gen(&self, src: &mut Src) -> Scenario {
        let kind = KINDS6[src.draw(KINDS6.len() as u32) as usize];
        let n = 1 + src.draw(if crate::prop::deep() { 20 } else { 10 });
        let mut steps = Vec::new();
        for si in 0..n {
            let s = match src.draw(20) {
                18 => {
                    let k = src.draw(5);
                    Step::RestartFromPoints {
                        pts: (0..k).map(|_| gen_in_pt(src)).collect(),
                        c: gen_col(src, kind),
                    }
                }
                19 => Step::RestartFromPattern,
                16 => Step::ContinueOnClone,
                17 => {
                    let k = 1 + src.draw(4);
                    Step::SetPixels {
                        pts: (0..k).map(|_| gen_in_pt(src)).collect(),
                        c: if src.draw(3) == 0 { None } else { Some(gen_col(src, kind)) },
                    }
                }
                0 | 1 | 2 => {
                    let k = src.draw(12);
                    let mut px: Vec<(i32, i32, u32)> = Vec::new();
                    for _ in 0..k {
                        let p = if !px.is_empty() && src.draw(8) == 0 {
                            let q = px[src.draw(px.len() as u32) as usize];
                            [q.0, q.1]
                        } else {
                            gen_pt(src)
                        };
                        px.push((p[0], p[1], gen_col(src, kind)));
                    }
                    Step::Target(HOp::DrawIter(px))
                }
                3 => Step::DrawPixel {
                    p: gen_pt(src),
                    c: gen_col(src, kind),
                },
                4 | 5 => {
                    let p = gen_pt(src);
                    let area = [p[0].clamp(-3, 70), p[1].clamp(-3, 70), src.draw(10) as i32, src.draw(6) as i32];
                    Step::Target(HOp::FillSolid {
                        area,
                        colour: gen_col(src, kind),
                    })
                }
                6 => {
                    let p = gen_pt(src);
                    let area = [p[0].clamp(-3, 70), p[1].clamp(-3, 70), src.draw(8) as i32, src.draw(5) as i32];
                    let nn = (area[2] * area[3]) as u32;
                    let len = match src.draw(3) {
                        0 => nn,
                        1 => src.draw(nn + 1),
                        _ => nn + src.draw(3),
                    };
                    Step::Target(HOp::FillContiguous {
                        area,
                        colours: (0..len).map(|_| gen_col(src, kind)).collect(),
                        repeat: None,
                    })
                }
                7 => Step::Target(HOp::Clear(gen_col(src, kind))),
                8 => {
                    let mut knobs = gen_knobs(src, kind.mask(), false);
                    knobs.scale = [8, 24][src.draw(2) as usize];
                    knobs.max_width = knobs.max_width.min(5);
                    knobs.origin = [src.draw(48) as i32, src.draw(48) as i32];
                    // no raw images here: their colours come out of the raw decoder, and a decoder
                    // defect (C09/C11) could put out-of-range colour values into the display
                    knobs.kinds.retain(|k| *k != 9 && *k != 10);
                    if knobs.kinds.is_empty() {
                        knobs.kinds.push(src.draw(9) as u8);
                    }
                    Step::Drawable(gen_drawable(src, &knobs, kind.bits()))
                }
                9 => Step::SetPixel {
                    p: gen_in_pt(src),
                    c: if src.draw(3) == 0 { None } else { Some(gen_col(src, kind)) },
                },
                10 => Step::AllowOverdraw(src.bool()),
                11 => Step::AllowOob(src.bool()),
                12 | 13 => Step::CompareClone {
                    modify: if src.draw(3) == 0 {
                        None
                    } else {
                        Some((gen_in_pt(src), if src.draw(3) == 0 { None } else { Some(gen_col(src, kind)) }))
                    },
                    flip_flags: src.draw(3) == 2,
                },
                14 => Step::DebugRoundTrip,
                _ => {
                    let a = alphabet(kind);
                    let h = [0u32, 1, 3, 64][src.draw(4) as usize].max(src.draw(9));
                    let w = [0u32, 1, 5, 64][src.draw(4) as usize].max(src.draw(12));
                    let mut rows = Vec::new();
                    for _ in 0..h.min(64) {
                        let mut r = String::new();
                        for _ in 0..w.min(64) {
                            if src.draw(4) == 0 {
                                r.push(' ');
                            } else {
                                r.push(a[src.draw(a.len() as u32) as usize].0);
                            }
                        }
                        rows.push(r);
                    }
                    Step::FromPattern { rows }
                }
            };
            let _ = si;
            steps.push(s);
        }
        Scenario { kind, steps }
    }

    fn exec(&self, sc: &Scenario, opts: &Opts) -> RunOut {
        match sc.kind {
            ColorKind::Binary => run_typed::<BinaryColor>(sc, opts),
            ColorKind::Gray2 => run_typed::<Gray2>(sc, opts),
            ColorKind::Gray4 => run_typed::<Gray4>(sc, opts),
            ColorKind::Gray8 => run_typed::<Gray8>(sc, opts),
            ColorKind::Rgb565 => run_typed::<Rgb565>(sc, opts),
            ColorKind::Rgb332 => run_typed::<Rgb332>(sc, opts),
            ColorKind::Rgb444 => run_typed::<Rgb444>(sc, opts),
            ColorKind::Rgb555 => run_typed::<Rgb555>(sc, opts),
            ColorKind::Bgr555 => run_typed::<Bgr555>(sc, opts),
            ColorKind::Bgr565 => run_typed::<Bgr565>(sc, opts),
            ColorKind::Bgr888 => run_typed::<Bgr888>(sc, opts),
            ColorKind::User8 => run_typed::<crate::dev::Cu8>(sc, opts),
            _ => run_typed::<Rgb888>(sc, opts),
        }
    }
}
