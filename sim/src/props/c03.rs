//! C03 — clipped / cropped / translated / colour-converted targets and the trait defaults are exact.
//!
//! Histories of primitive target operations issued at the top of seeded adapter stacks over a
//! seeded device; after every operation the device memory must equal the set-theoretic reference
//! model, nothing outside a clip region may have reached the device, and every layer must report
//! the model's bounding box.

use crate::dev::{ColorKind, SimColor, SimDisplay, SimError};
use crate::erased::{with_stack, Ad, DynTarget, Visitor};
use crate::exec::CHAIN_KINDS;
use crate::json::J;
use crate::model::{RefMemory, StackModel, TOp, R};
use crate::prop::{Opts, Property, RunOut, Tier, Violation};
use crate::rng::{det_hash, Hash64, Src};
use crate::runner::guarded;
use crate::scen::{gen_caps_disc, gen_rect_rel, gen_small_box, gen_stack, stack_json, stack_shape_index, DevCfg, STACK_SHAPES};
use embedded_graphics::pixelcolor::{BinaryColor, Rgb565, Rgb888};
use embedded_graphics::prelude::*;
use embedded_graphics::primitives::Rectangle;
use embedded_graphics::Pixel;

pub struct C03;

#[derive(Clone, Debug, Hash)]
pub struct Step {
    pub stack: Vec<Ad>,
    pub op: HOp,
    /// further operations issued on the SAME adapter instances right after `op`
    /// (adapters are otherwise rebuilt for every step, as short-lived borrows are in real code)
    pub more: Vec<HOp>,
}

/// Hashable mirror of `TOp`.
#[derive(Clone, Debug, Hash, PartialEq, Eq)]
pub enum HOp {
    DrawIter(Vec<(i32, i32, u32)>),
    FillContiguous { area: [i32; 4], colours: Vec<u32>, repeat: Option<u32> },
    FillSolid { area: [i32; 4], colour: u32 },
    Clear(u32),
}

impl HOp {
    fn top(&self) -> TOp {
        match self {
            HOp::DrawIter(p) => TOp::DrawIter(p.clone()),
            HOp::FillContiguous { area, colours, repeat } => TOp::FillContiguous {
                area: *area,
                colours: colours.clone(),
                repeat: *repeat,
            },
            HOp::FillSolid { area, colour } => TOp::FillSolid {
                area: *area,
                colour: *colour,
            },
            HOp::Clear(c) => TOp::Clear(*c),
        }
    }
}

#[derive(Clone, Debug, Hash)]
pub struct Scenario {
    pub dev: DevCfg,
    pub dev_kind: ColorKind,
    pub steps: Vec<Step>,
}

const PROBES: &[&str] = &[
    "stream_hint_vague_upper_bound_only",
    "stream_hint_unknown",
    "stream_not_fused",
    "clipped_fill_contiguous_slow_path",
    "clipped_fill_contiguous_fast_path",
    "initial_skip_gt_0",
    "row_skip_gt_0",
    "clip_empty",
    "area_zero_sized",
    "area_left_of_clip",
    "area_right_of_clip",
    "area_above_clip",
    "area_below_clip",
    "area_containing_clip",
    "area_disjoint_from_clip",
    "short_stream_cut_mid_row",
    "short_stream_cut_at_row_end",
    "stream_empty",
    "stream_surplus",
    "stream_unbounded",
    "parent_box_empty",
    "parent_box_non_origin",
    "device_box_contains_everything",
    "device_clips_writes",
    "stack_depth_3",
    "nested_clip_in_crop",
    "nested_crop_in_clip",
    "color_converted_depth_1",
    "color_converted_depth_2",
    "stack_rebuilt_mid_history",
    "op_on_inner_layer",
    "draw_iter_duplicate_points",
    "draw_iter_points_outside_clip",
    "clear_through_clipped",
    "clear_through_cropped",
    "clear_through_translated",
    "default_fill_solid_used",
    "default_fill_contiguous_used",
    "default_clear_used",
    "native_fill_contiguous_used",
    "crop_over_empty_boxes_only",
    "history_len_ge_4",
    "far_from_origin",
    "area_wider_than_255",
    "area_over_65535_pixels",
    "several_ops_on_same_adapter_instances",
    "colour_stream_next_then_for_each",
    "pixel_stream_for_each",
    "size_hint_compared_with_observed_end",
];

const FAULTS: &[&str] = &["short_stream", "surplus_stream", "unbounded_stream"];

fn probe(name: &str) -> u64 {
    1u64 << PROBES.iter().position(|p| *p == name).expect("probe name")
}

struct OpVisitor<'a> {
    ops: &'a [TOp],
    boxes: Vec<Rectangle>,
    /// bounding box of the top layer after the operations
    top_box_after: Option<Rectangle>,
}

impl Visitor for OpVisitor<'_> {
    type Out = Result<(), SimError>;
    fn visit<C: SimColor>(&mut self, top: &mut DynTarget<'_, C>, boxes: &[Rectangle]) -> Self::Out {
        self.boxes = boxes.to_vec();
        for op in self.ops {
            issue_one(top, op)?;
        }
        self.top_box_after = Some(top.bounding_box());
        Ok(())
    }
}

/// A stream whose `size_hint()` is truthful but vague, like `filter`, `scan`, `from_fn` or a
/// decoder of compressed data give: mode 1 = (0, upper bound of the inner stream), mode 2 =
/// (0, None), anything else = the inner stream's own hint. Only `next` is forwarded.
pub struct Vague<I: Iterator> {
    pub it: I,
    pub mode: u8,
    /// mode 3: items yielded so far (kept to be replayed after the end)
    pub seen: Vec<I::Item>,
    pub ended: bool,
}

impl<I: Iterator> Vague<I>
where
    I::Item: Clone,
{
    pub fn new(it: I, mode: u8) -> Self {
        Vague { it, mode, seen: Vec::new(), ended: false }
    }
}

/// Mode 3 is a stream that is **not fused** (`from_fn` over a state machine, a decoder that
/// restarts): it ends — returns `None` — where the inner stream ends, and if it is polled again
/// after that it yields again (its first items, reversed). A stream ends at its first `None`;
/// whatever comes after is not part of it.
impl<I: Iterator> Iterator for Vague<I>
where
    I::Item: Clone,
{
    type Item = I::Item;
    fn next(&mut self) -> Option<I::Item> {
        if self.mode != 3 {
            return self.it.next();
        }
        if self.ended {
            return self.seen.pop();
        }
        match self.it.next() {
            Some(x) => {
                if self.seen.len() < 6 {
                    self.seen.push(x.clone());
                }
                Some(x)
            }
            None => {
                self.ended = true;
                None
            }
        }
    }
    fn size_hint(&self) -> (usize, Option<usize>) {
        match self.mode {
            1 => (0, self.it.size_hint().1),
            2 | 3 => (0, None),
            _ => self.it.size_hint(),
        }
    }
}

/// Which hint the stream of an operation announces: derived from the operation (no tape draw).
pub fn hint_mode(op: &TOp) -> u8 {
    let k = match op {
        TOp::DrawIter(px) => px.len() as u64 + px.first().map_or(0, |p| (p.0 as i64 + 3 * p.1 as i64) as u64),
        TOp::FillContiguous { area, colours, .. } => colours.len() as u64 + (area[0] as i64 + 3 * area[1] as i64 + 5 * area[2] as i64) as u64,
        _ => 0,
    };
    // half of the streams keep their exact hint; one in eight is not fused (finite streams only:
    // an endless one has no end to resume after)
    let endless = matches!(op, TOp::FillContiguous { repeat: Some(_), .. });
    match [0u8, 1, 0, 2, 0, 1, 3, 2][(k % 8) as usize] {
        3 if endless => 2,
        m => m,
    }
}

fn issue_one<C: SimColor>(top: &mut DynTarget<'_, C>, op: &TOp) -> Result<(), SimError> {
    {
        let mode = hint_mode(op);
        match op {
            TOp::DrawIter(px) => top.draw_iter(Vague::new(px.iter().map(|(x, y, c)| Pixel(Point::new(*x, *y), C::from_u32(*c))), mode)),
            TOp::FillContiguous { area, colours, repeat } => {
                let a = crate::erased::rect_of(area);
                let it = colours.iter().map(|c| C::from_u32(*c));
                match repeat {
                    Some(r) => {
                        // an endless stream: only consumers that stop by themselves are legal for it
                        crate::erased::set_colour_fold(false);
                        let res = top.fill_contiguous(
                            &a,
                            Vague::new(it.chain(core::iter::repeat(C::from_u32(*r))), mode),
                        );
                        crate::erased::set_colour_fold(true);
                        res
                    }
                    None => top.fill_contiguous(&a, Vague::new(it, mode)),
                }
            }
            TOp::FillSolid { area, colour } => top.fill_solid(&crate::erased::rect_of(area), C::from_u32(*colour)),
            TOp::Clear(c) => top.clear(C::from_u32(*c)),
        }
    }
}

/// The box operations are generated relative to: the top layer's box when it is modest,
/// otherwise the virtual region `virt` (device coordinates) expressed in top coordinates.
fn gen_region(m: &StackModel, virt: &R) -> R {
    let tb = m.top_box();
    if tb.w() <= 56 && tb.h() <= 56 {
        return tb;
    }
    let mut off = (0i64, 0i64);
    for l in &m.layers {
        off.0 += l.off.0;
        off.1 += l.off.1;
    }
    virt.shift(-off.0, -off.1)
}

fn gen_op(src: &mut Src, m: &StackModel, top: R, step: u32) -> HOp {
    let mask = m.top_kind().mask();
    let col = |step: u32, i: u32| -> u32 {
        if mask == 1 {
            (step + i) & 1
        } else {
            (step.wrapping_mul(40503).wrapping_add(i.wrapping_mul(2654435761)).wrapping_add(1)) & mask
        }
    };
    match src.draw(4) {
        0 => {
            let n = src.draw(41);
            let mut px: Vec<(i32, i32, u32)> = Vec::new();
            for i in 0..n {
                let (x, y) = match src.draw(6) {
                    0 if !px.is_empty() => {
                        let p = px[src.draw(px.len() as u32) as usize];
                        (p.0, p.1)
                    }
                    1 | 2 if !top.is_empty() => (
                        top.x0 as i32 + src.draw(top.w() as u32) as i32,
                        top.y0 as i32 + src.draw(top.h() as u32) as i32,
                    ),
                    3 => {
                        // just outside an edge
                        let e = src.draw(4);
                        let (x0, y0, x1, y1) = (top.x0 as i32, top.y0 as i32, top.x1 as i32, top.y1 as i32);
                        match e {
                            0 => (x0 - 1, y0 + src.draw((top.h().max(1)) as u32) as i32),
                            1 => (x1, y0 + src.draw((top.h().max(1)) as u32) as i32),
                            2 => (x0 + src.draw((top.w().max(1)) as u32) as i32, y0 - 1),
                            _ => (x0 + src.draw((top.w().max(1)) as u32) as i32, y1),
                        }
                    }
                    4 => {
                        if src.draw(8) == 7 {
                            (src.sym(70000), src.sym(70000))
                        } else {
                            (top.x0 as i32 + src.sym(300), top.y0 as i32 + src.sym(300))
                        }
                    }
                    _ => (top.x0 as i32 + src.sym(12), top.y0 as i32 + src.sym(12)),
                };
                px.push((x, y, col(step, i)));
            }
            HOp::DrawIter(px)
        }
        1 => {
            let area = gen_rect_rel(src, &top, 24);
            let (w, h) = (area[2].max(0) as u32, area[3].max(0) as u32);
            let n = w * h;
            let (len, repeat) = match src.draw(7) {
                0 | 1 => (n, None),
                2 => (0, None),
                3 if n > 0 => (src.draw(n), None),
                4 if w > 0 && h > 1 => (w * (1 + src.draw(h - 1)), None),
                5 => (n + 1 + src.draw(5), None),
                6 => (src.draw(n + 1), Some(col(step, 999))),
                _ => (n, None),
            };
            let colours = (0..len).map(|i| col(step, i)).collect();
            HOp::FillContiguous { area, colours, repeat }
        }
        2 => HOp::FillSolid {
            area: gen_rect_rel(src, &top, 24),
            colour: col(step, 7),
        },
        _ => HOp::Clear(col(step, 3)),
    }
}

fn op_json(op: &HOp) -> J {
    op.top().to_json()
}

fn run_history<C: SimColor>(sc: &Scenario, opts: &Opts) -> RunOut {
    let mut out = RunOut::default();
    out.scen_hash = det_hash(sc);
    let mut trace = Hash64::new();
    trace.u64(out.scen_hash);
    let dev_r = sc.dev.r();
    let mut dev = SimDisplay::<C>::new(sc.dev.rect(), sc.dev.caps, sc.dev.disc());
    let mut reference = RefMemory::new(dev_r);
    let mut lattice_stack = 0u32;
    let mut everything_inside = true;

    if opts.describe {
        out.desc = Some(
            J::obj()
                .set("device", sc.dev.to_json().set("colour", J::s(sc.dev_kind.name())))
                .set(
                    "steps",
                    J::Arr(
                        sc.steps
                            .iter()
                            .map(|s| {
                                let mut j = J::obj().set("stack_device_first", stack_json(&s.stack)).set("op", op_json(&s.op));
                                if !s.more.is_empty() {
                                    j.put("then_on_the_same_adapter_instances", J::Arr(s.more.iter().map(op_json).collect()));
                                }
                                j
                            })
                            .collect(),
                    ),
                ),
        );
    }
    if sc.steps.len() >= 4 {
        out.probes |= probe("history_len_ge_4");
    }
    if sc.dev.bbox[0].abs() > 32768 || sc.dev.bbox[1].abs() > 32768 {
        out.probes |= probe("far_from_origin");
    }
    for op in sc.steps.iter().flat_map(|st| std::iter::once(&st.op).chain(st.more.iter())) {
        let a = match op {
            HOp::FillContiguous { area, .. } | HOp::FillSolid { area, .. } => Some(*area),
            _ => None,
        };
        if let Some(a) = a {
            if a[2] > 255 && a[3] > 0 {
                out.probes |= probe("area_wider_than_255");
            }
            if (a[2].max(0) as i64) * (a[3].max(0) as i64) > 65535 {
                out.probes |= probe("area_over_65535_pixels");
            }
        }
    }
    if dev_r.x0 != 0 || dev_r.y0 != 0 {
        out.probes |= probe("parent_box_non_origin");
    }
    if dev_r.is_empty() {
        out.probes |= probe("parent_box_empty");
    }

    crate::erased::set_fold_mode(matches!(
        sc.dev.disc(),
        crate::dev::Discipline::DrainBounded | crate::dev::Discipline::SkipHidden
    ));
    let mut prev_stack: Option<&Vec<Ad>> = None;
    for (si, step) in sc.steps.iter().enumerate() {
        let m = StackModel::new(dev_r, sc.dev_kind, &step.stack);
        let level = step.stack.len();
        lattice_stack = lattice_stack.max(stack_shape_index(&step.stack));
        if let Some(p) = prev_stack {
            if *p != step.stack {
                out.probes |= probe("stack_rebuilt_mid_history");
                if p.len() > step.stack.len() && p[..step.stack.len()] == step.stack[..] {
                    out.probes |= probe("op_on_inner_layer");
                }
            }
        }
        prev_stack = Some(&step.stack);
        stack_probes(&mut out, &m, &step.stack);
        let tops: Vec<TOp> = std::iter::once(&step.op).chain(step.more.iter()).map(|o| o.top()).collect();
        let top = tops[0].clone();
        if tops.len() > 1 {
            out.probes |= probe("several_ops_on_same_adapter_instances");
        }
        let crop_empty = m.has_crop_over_empty();

        // what the model says
        let mut reaching: Vec<crate::model::W> = Vec::new();
        for t in &tops {
            let issued = t.writes(&m.top_box());
            let r = m.push_down(level, issued.clone());
            op_probes(&mut out, &m, &step.stack, t, &issued, &r, &dev_r);
            reaching.extend(r);
        }

        let calls_before = dev.st.calls.len();
        dev.st.guard = m.guard(level);
        dev.st.guard_violation = None;
        crate::dev::take_hint_breach();
        crate::dev::take_unbounded_abort();
        crate::dev::take_reach();

        let mut v = OpVisitor { ops: &tops, boxes: Vec::new(), top_box_after: None };
        let run_op = !crop_empty;
        let result: Result<Result<(), SimError>, String> = if run_op {
            guarded(|| {
                let mut boxes = Vec::new();
                let mut t = DynTarget::new(&mut dev);
                with_stack(&mut t, &step.stack, &mut boxes, &mut v)
            })
        } else {
            // only build the stack and read the boxes
            out.probes |= probe("crop_over_empty_boxes_only");
            struct BoxesOnly(Vec<Rectangle>);
            impl Visitor for BoxesOnly {
                type Out = ();
                fn visit<C2: SimColor>(&mut self, _t: &mut DynTarget<'_, C2>, boxes: &[Rectangle]) {
                    self.0 = boxes.to_vec();
                }
            }
            let mut b = BoxesOnly(Vec::new());
            let r = guarded(|| {
                let mut boxes = Vec::new();
                let mut t = DynTarget::new(&mut dev);
                with_stack(&mut t, &step.stack, &mut boxes, &mut b)
            });
            v.boxes = b.0;
            r.map(|_| Ok(()))
        };
        out.sub_evals += 1;
        for (i, n) in crate::dev::take_reach().iter().enumerate() {
            if *n > 0 {
                out.probes |= probe(["colour_stream_next_then_for_each", "pixel_stream_for_each", "size_hint_compared_with_observed_end"][i]);
            }
        }
        if crate::dev::take_unbounded_abort() {
            // an unbounded internal-iteration consumer met a stream that did not end: legal for the
            // library (fill_contiguous takes endless streams), so nothing can be concluded
            out.skipped = Some("unbounded_consumer_met_endless_stream");
            break;
        }

        for c in &dev.st.calls[calls_before..] {
            use crate::dev::Method;
            if c.method != c.executed_by {
                match c.method {
                    Method::FillSolid => out.probes |= probe("default_fill_solid_used"),
                    Method::FillContiguous => out.probes |= probe("default_fill_contiguous_used"),
                    Method::Clear => out.probes |= probe("default_clear_used"),
                    _ => {}
                }
            } else if c.method == Method::FillContiguous {
                out.probes |= probe("native_fill_contiguous_used");
            }
        }

        let step_desc = || format!("step {} ({} through {} layer(s))", si + 1, top.name(), level);
        let mk = |class: &'static str, msg: String| {
            Violation::new(class, format!("{}: {}", step_desc(), msg))
                .fact("op", top.name())
                .fact("depth", level.to_string())
                .fact("caps", sc.dev.caps.to_string())
        };

        let mut viol: Option<Violation> = None;
        match &result {
            Err(p) => viol = Some(mk("panic", format!("operation panicked: {}", p))),
            Ok(Err(e)) => viol = Some(mk("unexpected_error", format!("operation returned Err({:#x}) on a fault-free device", e.0))),
            Ok(Ok(())) => {}
        }
        // bounding boxes of every layer
        if viol.is_none() {
            for (lvl, b) in v.boxes.iter().enumerate() {
                let got = R::from_rect(b);
                let want = m.box_at(lvl);
                if !got.same_points(&want) {
                    viol = Some(mk(
                        "bounding_box",
                        format!(
                            "layer {} ({}) reports bounding box {:?}, model says {:?}",
                            lvl,
                            if lvl == 0 { "device".to_string() } else { format!("{:?}", step.stack[lvl - 1]) },
                            got.to_arr(),
                            want.to_arr()
                        ),
                    ));
                    break;
                }
            }
            if viol.is_none() {
                if let (Some(after), Some(before)) = (v.top_box_after, v.boxes.last()) {
                    if !R::from_rect(&after).same_points(&R::from_rect(before)) {
                        viol = Some(mk(
                            "bounding_box",
                            format!(
                                "the top layer reported bounding box {:?} before the operation(s) and {:?} afterwards",
                                R::from_rect(before).to_arr(),
                                R::from_rect(&after).to_arr()
                            ),
                        ));
                    }
                }
            }
            if viol.is_none() && v.boxes.len() != level + 1 {
                viol = Some(mk("bounding_box", format!("{} boxes collected, expected {}", v.boxes.len(), level + 1)));
            }
        }
        if run_op && viol.is_none() {
            // (2) nothing outside the clip region reached the device
            if let Some((x, y, call)) = dev.st.guard_violation {
                viol = Some(mk(
                    "clip_leak",
                    format!(
                        "a write to device point ({},{}) reached the device in call #{} although the clipped layer(s) confine writes to {:?}",
                        x,
                        y,
                        call,
                        dev.st.guard.map(|g| g.to_arr())
                    ),
                ));
            }
        }
        if run_op && viol.is_none() {
            // (1) the device ends up exactly as the model says
            reference.apply(&reaching);
            if let Some((x, y, want, got)) = reference.first_diff(&dev.st.memory) {
                viol = Some(mk(
                    "memory_mismatch",
                    format!(
                        "device point ({},{}) holds {:?}, reference model says {:?}",
                        x, y, got, want
                    ),
                ));
            }
            if reaching.iter().any(|(x, y, _)| !dev_r.contains(*x, *y)) {
                everything_inside = false;
                out.probes |= probe("device_clips_writes");
            }
        }
        if run_op && viol.is_none() {
            // (3) a parent may size or stop its transfer by size_hint(): the streams the adapters hand
            // down must not contradict their own hints, or such a parent does not end up "exactly as if
            // the operation had been applied to it directly"
            if let Some(b) = crate::dev::take_hint_breach() {
                viol = Some(mk("size_hint_contradicted", b));
            }
        }
        trace.u64(dev.st.trace.finish());
        if let Some(vv) = viol {
            if opts.describe {
                out.trace = dev.st.describe_calls(80);
            }
            trace.str(vv.class);
            out.violation = Some(vv);
            break;
        }
    }
    crate::erased::set_fold_mode(false);
    if everything_inside {
        out.probes |= probe("device_box_contains_everything");
    }
    if opts.describe && out.trace.is_empty() {
        out.trace = dev.st.describe_calls(80);
    }
    out.calls = dev.st.n_calls;
    out.items = dev.st.n_items;
    out.shape_hash = dev.st.shape.finish();
    out.nontrivial = dev.st.calls.iter().any(|c| c.changed > 0);
    out.lattice = sc.dev.lattice() * STACK_SHAPES + lattice_stack;
    trace.u64(dev.st.memory_hash());
    out.trace_hash = trace.finish();
    out
}

fn stack_probes(out: &mut RunOut, m: &StackModel, stack: &[Ad]) {
    if stack.len() == 3 {
        out.probes |= probe("stack_depth_3");
    }
    let cc = stack.iter().filter(|a| matches!(a, Ad::ColorConverted)).count();
    // only conversions that change the colour type count
    let mut eff = 0;
    let mut k = m.dev_kind;
    for a in stack {
        if matches!(a, Ad::ColorConverted) {
            let d = crate::dev::down_kind(k);
            if d != k {
                eff += 1;
            }
            k = d;
        }
    }
    let _ = cc;
    if eff >= 1 {
        out.probes |= probe("color_converted_depth_1");
    }
    if eff >= 2 {
        out.probes |= probe("color_converted_depth_2");
    }
    for i in 1..stack.len() {
        match (&stack[i - 1], &stack[i]) {
            (Ad::Cropped(_), Ad::Clipped(_)) => out.probes |= probe("nested_clip_in_crop"),
            (Ad::Clipped(_), Ad::Cropped(_)) => out.probes |= probe("nested_crop_in_clip"),
            _ => {}
        }
    }
    for (i, l) in m.layers.iter().enumerate() {
        if let Some(c) = &l.clip {
            if c.is_empty() {
                out.probes |= probe("clip_empty");
            }
        }
        let pb = m.box_at(i);
        if pb.is_empty() {
            out.probes |= probe("parent_box_empty");
        } else if pb.x0 != 0 || pb.y0 != 0 {
            out.probes |= probe("parent_box_non_origin");
        }
    }
}

fn op_probes(out: &mut RunOut, m: &StackModel, stack: &[Ad], op: &TOp, issued: &[(i64, i64, u32)], reaching: &[(i64, i64, u32)], _dev: &R) {
    let has_clip = stack.iter().any(|a| matches!(a, Ad::Clipped(_)));
    match op {
        TOp::Clear(_) => {
            for a in stack {
                match a {
                    Ad::Clipped(_) => out.probes |= probe("clear_through_clipped"),
                    Ad::Cropped(_) => out.probes |= probe("clear_through_cropped"),
                    Ad::Translated(_) => out.probes |= probe("clear_through_translated"),
                    _ => {}
                }
            }
        }
        TOp::DrawIter(px) => {
            let mut seen = std::collections::BTreeSet::new();
            for (x, y, _) in px {
                if !seen.insert((*x, *y)) {
                    out.probes |= probe("draw_iter_duplicate_points");
                }
            }
            if has_clip && reaching.len() < issued.len() {
                out.probes |= probe("draw_iter_points_outside_clip");
            }
        }
        TOp::FillContiguous { area, colours, repeat } => {
            match hint_mode(op) {
                1 => out.probes |= probe("stream_hint_vague_upper_bound_only"),
                2 => out.probes |= probe("stream_hint_unknown"),
                3 => out.probes |= probe("stream_not_fused"),
                _ => {}
            }
            let a = R::xywh(area[0] as i64, area[1] as i64, area[2] as i64, area[3] as i64);
            let n = a.area() as usize;
            if repeat.is_some() {
                out.probes |= probe("stream_unbounded");
                out.faults_configured[2] += 1;
                out.faults_fired[2] += 1;
            } else if colours.is_empty() && n > 0 {
                out.probes |= probe("stream_empty");
                out.faults_configured[0] += 1;
                out.faults_fired[0] += 1;
            } else if colours.len() < n {
                out.faults_configured[0] += 1;
                out.faults_fired[0] += 1;
                if a.w() > 0 && colours.len() as i64 % a.w() == 0 {
                    out.probes |= probe("short_stream_cut_at_row_end");
                } else {
                    out.probes |= probe("short_stream_cut_mid_row");
                }
            } else if colours.len() > n {
                out.probes |= probe("stream_surplus");
                out.faults_configured[1] += 1;
                out.faults_fired[1] += 1;
            }
            if a.is_empty() {
                out.probes |= probe("area_zero_sized");
            }
            // relation to the topmost clipped layer's region, in that layer's coordinates
            // (walk down from the top accumulating offsets until a clipped layer is met)
            let mut off = (0i64, 0i64);
            for l in m.layers.iter().rev() {
                if let Some(clip) = &l.clip {
                    let aa = a.shift(off.0, off.1);
                    if !aa.is_empty() {
                        let inter = aa.intersect(clip);
                        if inter == aa {
                            out.probes |= probe("clipped_fill_contiguous_fast_path");
                        } else {
                            out.probes |= probe("clipped_fill_contiguous_slow_path");
                            if inter.is_empty() {
                                out.probes |= probe("area_disjoint_from_clip");
                            } else {
                                if aa.x0 < clip.x0 {
                                    out.probes |= probe("area_left_of_clip");
                                }
                                if aa.x1 > clip.x1 {
                                    out.probes |= probe("area_right_of_clip");
                                }
                                if aa.y0 < clip.y0 {
                                    out.probes |= probe("area_above_clip");
                                }
                                if aa.y1 > clip.y1 {
                                    out.probes |= probe("area_below_clip");
                                }
                                if aa.contains_rect(clip) && aa != *clip {
                                    out.probes |= probe("area_containing_clip");
                                }
                                if inter.y0 > aa.y0 || inter.x0 > aa.x0 {
                                    out.probes |= probe("initial_skip_gt_0");
                                }
                                if inter.w() < aa.w() {
                                    out.probes |= probe("row_skip_gt_0");
                                }
                            }
                        }
                    }
                    break;
                }
                off.0 += l.off.0;
                off.1 += l.off.1;
            }
        }
        TOp::FillSolid { area, .. } => {
            if area[2] <= 0 || area[3] <= 0 {
                out.probes |= probe("area_zero_sized");
            }
        }
    }
}

impl Property for C03 {
    type Scenario = Scenario;

    fn id(&self) -> &'static str {
        "C03"
    }
    fn level(&self) -> &'static str {
        "exploration"
    }
    fn technique(&self) -> &'static str {
        "deterministic simulation: seeded operation histories through real adapter stacks onto a simulated device, checked step by step against an independent set-theoretic reference model"
    }
    fn runs(&self, tier: Tier) -> u64 {
        match tier {
            Tier::Quick => 1_000_000,
            Tier::Thorough => 30_000_000,
        }
    }
    fn probe_names(&self) -> &'static [&'static str] {
        PROBES
    }
    fn fault_names(&self) -> &'static [&'static str] {
        FAULTS
    }
    fn lattice_size(&self) -> u32 {
        8 * crate::dev::N_DISC * (STACK_SHAPES - 1)
    }
    fn lattice_desc(&self) -> &'static str {
        "capability set (8) x consumption discipline (5) x adapter stack shape (84 reachable kind sequences of depth 0..=3; three colour conversions are impossible on the 3-level colour chain)"
    }
    fn sub_eval_name(&self) -> &'static str {
        "operations_checked"
    }
    fn rule(&self) -> &'static str {
        "one seeded history = device (arbitrary box incl. empty / non-origin, capability set, discipline) + 1..6 steps, each an adapter stack (depth 0..3, rebuilt or truncated between steps) and one operation (draw_iter with unordered/duplicate/outside points, fill_contiguous with empty/short/exact/surplus/unbounded streams, fill_solid, clear); after every step: device memory == reference model, no write outside the clip region reached the device, every layer's bounding_box() == model, no stream handed down contradicts its own size_hint() (devices and the buffering shim consume with next / nth / for_each, also mixed on one stream). distinct = 64-bit hash of the decoded history; non-trivial = at least one device call changed at least one pixel"
    }
    fn assumptions(&self) -> Vec<&'static str> {
        vec![
            "SimDisplay models conforming drivers",
            "empty bounding boxes are compared as point sets; a cropped layer over an empty intersection is only checked for its (empty) box and not drawn through (origin undocumented)",
            "clear(c) on any layer means fill of that layer's own bounding box",
            "coordinates within +-300 and areas <= 48x48 in most histories; 1 in 16 histories lives around a point up to +-60000 from the origin with translations up to +-40000 (|coordinates| < 200000), 1 in 64 uses areas up to 300x260 (78000 pixels); depth <= 3, <= 6 operations; release arithmetic",
            "colour conversion is modelled by the library's own Into (its numeric correctness is C13)",
        ]
    }

    fn gen(&self, src: &mut Src) -> Scenario {
        // the three library kinds of the conversion chain and (appended) the harness' 32-bit device
        // colour, above which the chain continues with a user colour whose `==` is coarse
        let dev_kind = [CHAIN_KINDS[0], CHAIN_KINDS[1], CHAIN_KINDS[2], ColorKind::C32][src.draw(4) as usize];
        crate::dev::set_user_chain(dev_kind == ColorKind::C32);
        let (caps, disc) = gen_caps_disc(src);
        // swarm modes: 1/16 of the histories live far from the origin (coordinates beyond +-32768),
        // 1/64 use areas wider than 255 pixels / larger than 65535 pixels on a 340x300 device
        let mode = src.draw(64);
        let far = mode < 4;
        let bigarea = mode == 63;
        let off = if far { [src.sym(60000), src.sym(60000)] } else { [0, 0] };
        let large = bigarea || src.draw(5) < 3;
        let mut bbox = if bigarea {
            [-20, -20, 340, 300]
        } else if large {
            [-70, -70, 150, 150]
        } else {
            gen_small_box(src)
        };
        bbox[0] += off[0];
        bbox[1] += off[1];
        let dev = DevCfg { bbox, caps, disc };
        let dev_r = dev.r();
        // for the large device keep adapters around a smaller virtual region so that writes stay inside
        let n_steps = if bigarea { 1 + src.draw(3) } else { 1 + src.draw(if crate::prop::deep() { 12 } else { 6 }) };
        let virt0 = if bigarea {
            R::xywh(off[0] as i64, off[1] as i64, 300, 260)
        } else {
            R::xywh(-12 + src.sym(6) as i64, -12 + src.sym(6) as i64, 1 + src.draw(40) as i64, 1 + src.draw(40) as i64).shift(off[0] as i64, off[1] as i64)
        };
        let mut steps: Vec<Step> = Vec::new();
        for si in 0..n_steps {
            let stack = match steps.last() {
                Some(prev) if src.bool() => {
                    // keep, or issue on an inner layer
                    if !prev.stack.is_empty() && src.draw(4) == 0 {
                        prev.stack[..src.draw(prev.stack.len() as u32) as usize].to_vec()
                    } else {
                        prev.stack.clone()
                    }
                }
                _ => {
                    if large {
                        // first layer relative to a modest region so that most writes land inside the device box
                        gen_stack_rel(src, &dev_r, &virt0, dev_kind)
                    } else {
                        gen_stack(src, &dev_r, dev_kind, 3, true, 24, true, true)
                    }
                }
            };
            let m = StackModel::new(dev_r, dev_kind, &stack);
            let region = gen_region(&m, &virt0);
            let op = gen_op(src, &m, region, si);
            let mut more = Vec::new();
            if src.draw(4) == 3 {
                for k in 0..1 + src.draw(2) {
                    more.push(gen_op(src, &m, region, si + 100 * (k + 1)));
                }
            }
            steps.push(Step { stack, op, more });
        }
        crate::dev::set_user_chain(false);
        Scenario { dev, dev_kind, steps }
    }

    fn exec(&self, sc: &Scenario, opts: &Opts) -> RunOut {
        match sc.dev_kind {
            ColorKind::Binary => run_history::<BinaryColor>(sc, opts),
            ColorKind::Rgb565 => run_history::<Rgb565>(sc, opts),
            ColorKind::C32 => {
                crate::dev::set_user_chain(true);
                let r = crate::runner::guarded(|| run_history::<crate::dev::C32>(sc, opts));
                crate::dev::set_user_chain(false);
                match r {
                    Ok(o) => o,
                    Err(p) => panic!("{}", p),
                }
            }
            _ => run_history::<Rgb888>(sc, opts),
        }
    }
}

/// Stack over a large device: the first clip/crop area is drawn relative to `virt`, a modest
/// region well inside the device, so the device memory shows every write.
fn gen_stack_rel(src: &mut Src, dev_r: &R, virt: &R, dev_kind: ColorKind) -> Vec<Ad> {
    let depth = src.draw(4);
    let mut stack: Vec<Ad> = Vec::new();
    let mut kind = dev_kind;
    for d in 0..depth {
        let m = StackModel::new(*dev_r, dev_kind, &stack);
        let b = if stack.iter().any(|a| matches!(a, Ad::Clipped(_) | Ad::Cropped(_))) {
            m.top_box()
        } else {
            // no bounding layer yet: use the virtual region expressed in the current coordinates
            let mut off = (0i64, 0i64);
            for l in &m.layers {
                off.0 += l.off.0;
                off.1 += l.off.1;
            }
            virt.shift(-off.0, -off.1)
        };
        let can_cc = crate::dev::down_kind(kind) != kind;
        let ad = match src.draw(if can_cc { 4 } else { 3 }) {
            0 => {
                if src.draw(16) == 15 {
                    Ad::Translated([src.sym(40000), src.sym(40000)])
                } else {
                    Ad::Translated([src.sym(12), src.sym(12)])
                }
            }
            1 => Ad::Clipped(gen_rect_rel(src, &b, 24)),
            2 => {
                let mut a = gen_rect_rel(src, &b, 24);
                let ra = R::xywh(a[0] as i64, a[1] as i64, a[2] as i64, a[3] as i64);
                let pb = m.top_box();
                if ra.intersect(&pb).is_empty() && !pb.is_empty() && src.draw(8) != 0 {
                    a = [b.x0 as i32, b.y0 as i32, b.w().max(1) as i32, b.h().max(1) as i32];
                }
                Ad::Cropped(a)
            }
            _ => {
                kind = crate::dev::down_kind(kind);
                Ad::ColorConverted
            }
        };
        let _ = d;
        stack.push(ad);
    }
    stack
}
