//! C10 — Framebuffer reads back what was written, in the layout of ImageRaw.
//!
//! Write histories (set_pixel, target operations and drawables through adapter stacks, points
//! inside / on the edge / far outside) on real `Framebuffer`s of all 7 raw widths x 2 data orders
//! x 8 sizes x exact/oversized buffers, with seeded bit flips of stored bytes between operations;
//! judged after every step against a reference map.

use crate::dev::{ColorKind, SimColor, SimDisplay, SimError, C32};
use crate::erased::{with_stack, Ad, DynTarget, InfallibleTarget, Visitor};
use crate::json::J;
use crate::model::{StackModel, TOp, R};
use crate::prop::{Opts, Property, RunOut, Tier, Violation};
use crate::props::c03::{hint_mode, HOp, Vague};
use crate::props::c09::{ref_pixel, KINDS7};
use crate::rng::{det_hash, Hash64, Src};
use crate::runner::guarded;
use crate::scen::{gen_rect_rel, gen_stack, stack_json};
use crate::workload::{draw_spec, gen_drawable, gen_knobs, DrawableSpec, Path};
use embedded_graphics::framebuffer::{buffer_size, Framebuffer};
use embedded_graphics::image::{GetPixel, Image};
use embedded_graphics::pixelcolor::raw::{BigEndianLsb0, LittleEndianMsb0};
use embedded_graphics::pixelcolor::{BinaryColor, Gray2, Gray4, Gray8, Rgb565, Rgb888};
use embedded_graphics::prelude::*;
use embedded_graphics::primitives::Rectangle;
use embedded_graphics::Pixel;

pub struct C10;

pub const SIZES: [(u32, u32); 12] = [
    (0, 0),
    (1, 1),
    (3, 2),
    (5, 4),
    (8, 3),
    (9, 2),
    (13, 3),
    (16, 1),
    // rarely drawn: WIDTH == 1, rows longer than 255 pixels / 255 bytes, more than 65535 pixels / bytes
    (1, 5),
    (257, 2),
    (70, 3),
    (256, 257),
];
/// Spare bytes of an oversized buffer: 3 for most sizes, two whole rows plus one byte for 5x4, 9x2
/// and 70x3 (so that "more than one spare row" exists for every depth).
pub const fn tail<C: PixelColor>(w: usize, h: usize) -> usize {
    match (w, h) {
        (5, 4) | (9, 2) | (70, 3) => 2 * buffer_size::<C>(w, 1) + 1,
        _ => 3,
    }
}
pub const fn extra<C: PixelColor>(w: usize, h: usize, oversized: bool) -> usize {
    if oversized {
        tail::<C>(w, h)
    } else {
        0
    }
}

// ---------------------------------------------------------------- framebuffer behind an object-safe interface

pub trait FbOps<C: SimColor> {
    fn fb_size(&self) -> (u32, u32);
    fn n(&self) -> usize;
    fn fb_set_pixel(&mut self, x: i32, y: i32, c: u32);
    fn fb_pixel(&self, x: i32, y: i32) -> Option<u32>;
    fn fb_data(&self) -> &[u8];
    fn fb_data_mut(&mut self) -> &mut [u8];
    /// `as_image() == ImageRaw::new(&data()[..used], size)` and `as_image().pixel(p) == pixel(p)` on the box
    fn as_image_consistent(&self, used: usize, pts: &[(i32, i32)]) -> Result<(), String>;
    /// draw `as_image()` (or a sub-image of it) as the plan says onto a fresh device of the same
    /// size; returns the device memory
    fn draw_as_image(&self, caps: u8, disc: u8, plan: &AsImagePlan) -> Result<Vec<Option<u32>>, String>;
    /// run `f` on the framebuffer as a type-erased target
    fn with_target(&mut self, f: &mut dyn FnMut(&mut DynTarget<'_, C>));
}


/// How a `ReadBackAsImage` step draws the image: where, which part, through a clip or not.
/// Derived from the step (no tape draw), so old replay files keep their meaning.
#[derive(Clone, Debug)]
pub struct AsImagePlan {
    pub at: [i32; 2],
    pub sub: Option<[i32; 4]>,
    pub clip: Option<[i32; 4]>,
    /// the draining consumer may use k x next + unbounded for_each (image streams are finite)
    pub unbounded: bool,
}

impl AsImagePlan {
    pub fn plain() -> Self {
        AsImagePlan { at: [0, 0], sub: None, clip: None, unbounded: false }
    }
    pub fn derive(si: usize, caps: u8, disc: u8, w: u32, h: u32) -> Self {
        let mut x = det_hash(&(si as u64, caps, disc, w, h));
        let mut take = |n: u64| -> u64 {
            let v = x % n;
            x = crate::rng::det_hash(&(x, n));
            v
        };
        // one read-back in three stays the plain one (whole image at the origin)
        if take(3) == 0 {
            return AsImagePlan { unbounded: take(2) == 0, ..AsImagePlan::plain() };
        }
        let (wi, hi) = (w as i64, h as i64);
        let coord = |take: &mut dyn FnMut(u64) -> u64, n: i64| -> i32 {
            // mostly cut off at the top / left (that is where consumers skip), sometimes shifted in
            match take(6) {
                0 => 0,
                1 => -1,
                2 => -2,
                3 => -(take(n.max(1) as u64 + 2) as i64) as i32,
                4 => -3 - take(3) as i32,
                _ => take(3) as i32,
            }
        };
        let at = [coord(&mut take, wi), coord(&mut take, hi)];
        let sub = if take(2) == 0 {
            let x0 = take(wi.max(1) as u64 + 1) as i32 - (take(4) == 0) as i32;
            let y0 = take(hi.max(1) as u64 + 1) as i32 - (take(4) == 0) as i32;
            let sw = match take(3) {
                0 => (wi as i32 - x0).max(0), // reaches the right edge exactly
                1 => wi as i32 + 2,           // overlaps it
                _ => take(wi.max(1) as u64 + 1) as i32,
            };
            let sh = match take(3) {
                0 => (hi as i32 - y0).max(0),
                1 => hi as i32 + 2,
                _ => take(hi.max(1) as u64 + 1) as i32,
            };
            Some([x0, y0, sw, sh])
        } else {
            None
        };
        let clip = if take(2) == 0 {
            let cx = take(wi.max(1) as u64) as i32;
            let cy = take(hi.max(1) as u64) as i32;
            Some([cx, cy, 1 + take(wi.max(1) as u64 + 1) as i32, 1 + take(hi.max(1) as u64 + 1) as i32])
        } else {
            None
        };
        AsImagePlan { at, sub, clip, unbounded: take(2) == 0 }
    }
    pub fn to_json(&self) -> J {
        J::obj()
            .set("at", J::ints(&[self.at[0] as i64, self.at[1] as i64]))
            .set("sub_image", self.sub.map(|a| J::ints(&[a[0] as i64, a[1] as i64, a[2] as i64, a[3] as i64])).unwrap_or(J::Null))
            .set("clipped", self.clip.map(|a| J::ints(&[a[0] as i64, a[1] as i64, a[2] as i64, a[3] as i64])).unwrap_or(J::Null))
            .set("unbounded_drain", J::Bool(self.unbounded))
    }
    /// What the device memory must hold afterwards: the independent reading of "drawing it
    /// reproduces the framebuffer's content" for a part of the image, an offset and a clip.
    pub fn expected(&self, model: &[u32], w: u32, h: u32) -> Vec<Option<u32>> {
        let img = R::xywh(0, 0, w as i64, h as i64);
        let region = match self.sub {
            None => img,
            Some(a) => R::xywh(a[0] as i64, a[1] as i64, a[2].max(0) as i64, a[3].max(0) as i64).intersect(&img),
        };
        let clip = match self.clip {
            None => img,
            Some(a) => R::xywh(a[0] as i64, a[1] as i64, a[2].max(0) as i64, a[3].max(0) as i64).intersect(&img),
        };
        let mut out = vec![None; (w * h) as usize];
        if region.is_empty() {
            return out;
        }
        for y in 0..h as i64 {
            for x in 0..w as i64 {
                if !clip.contains(x, y) {
                    continue;
                }
                let (sx, sy) = (x - self.at[0] as i64 + region.x0, y - self.at[1] as i64 + region.y0);
                if region.contains(sx, sy) {
                    out[(y * w as i64 + x) as usize] = Some(model[(sy * w as i64 + sx) as usize]);
                }
            }
        }
        out
    }
}

fn rect_of4(a: &[i32; 4]) -> Rectangle {
    Rectangle::new(Point::new(a[0], a[1]), Size::new(a[2].max(0) as u32, a[3].max(0) as u32))
}

/// Instantiated once per (colour, data order), not per framebuffer type.
fn draw_image_plan<C: SimColor, I: embedded_graphics::image::ImageDrawable<Color = C>>(
    img: &I,
    w: usize,
    h: usize,
    caps: u8,
    disc: u8,
    plan: &AsImagePlan,
) -> Result<Vec<Option<u32>>, String> {
    use embedded_graphics::image::ImageDrawableExt;
    let mut dev = SimDisplay::<C>::new(
        Rectangle::new(Point::zero(), Size::new(w as u32, h as u32)),
        caps,
        crate::dev::DISCIPLINES[disc as usize],
    );
    dev.st.unbounded_ok = plan.unbounded;
    crate::dev::take_unbounded_abort();
    let at = Point::new(plan.at[0], plan.at[1]);
    fn go<C: SimColor, J: embedded_graphics::image::ImageDrawable<Color = C>>(
        img: &J,
        at: Point,
        clip: &Option<[i32; 4]>,
        dev: &mut SimDisplay<C>,
    ) -> Result<(), SimError> {
        match clip {
            None => Image::new(img, at).draw(dev),
            Some(c) => Image::new(img, at).draw(&mut dev.clipped(&rect_of4(c))),
        }
    }
    let r = guarded(|| match &plan.sub {
        None => go(img, at, &plan.clip, &mut dev),
        Some(a) => go(&img.sub_image(&rect_of4(a)), at, &plan.clip, &mut dev),
    });
    let endless = crate::dev::take_unbounded_abort();
    match r {
        Err(_) if endless => {
            return Err(format!(
                "the colour stream of as_image() did not end within area + {} colours on a draining target",
                crate::dev::UNBOUNDED_LIMIT
            ))
        }
        Err(p) => return Err(format!("drawing as_image() panicked: {}", p)),
        Ok(Err(e)) => return Err(format!("drawing as_image() failed with {:?}", e)),
        Ok(Ok(())) => {}
    }
    if dev.st.max_surplus > 0 && plan.clip.is_none() {
        return Err(format!("drawing as_image() streamed {} surplus colour(s)", dev.st.max_surplus));
    }
    Ok(dev.st.memory)
}

macro_rules! fb_impl {
    ($c:ty, $o:ty, $be:expr, $w:expr, $h:expr, $n:expr) => {
        impl FbOps<$c> for Framebuffer<$c, <$c as PixelColor>::Raw, $o, $w, $h, { $n }> {
            fn fb_size(&self) -> (u32, u32) {
                ($w as u32, $h as u32)
            }
            fn n(&self) -> usize {
                $n
            }
            fn fb_set_pixel(&mut self, x: i32, y: i32, c: u32) {
                self.set_pixel(Point::new(x, y), <$c as SimColor>::from_u32(c))
            }
            fn fb_pixel(&self, x: i32, y: i32) -> Option<u32> {
                self.pixel(Point::new(x, y)).map(|c| c.to_u32())
            }
            fn fb_data(&self) -> &[u8] {
                self.data()
            }
            fn fb_data_mut(&mut self) -> &mut [u8] {
                self.data_mut()
            }
            fn as_image_consistent(&self, used: usize, pts: &[(i32, i32)]) -> Result<(), String> {
                let img = self.as_image();
                let rebuilt = embedded_graphics::image::ImageRaw::<$c, $o>::new(&self.data()[..used], Size::new($w, $h))
                    .map_err(|e| format!("ImageRaw::new over the used prefix failed: {:?}", e))?;
                if img != rebuilt {
                    return Err("as_image() differs from ImageRaw::new(&data()[..BUFFER_SIZE], (W, H))".into());
                }
                for (x, y) in pts {
                    let a = img.pixel(Point::new(*x, *y)).map(|c| c.to_u32());
                    let b = GetPixel::pixel(self, Point::new(*x, *y)).map(|c| c.to_u32());
                    if a != b {
                        return Err(format!("as_image().pixel(({},{})) = {:?} but pixel() = {:?}", x, y, a, b));
                    }
                }
                Ok(())
            }
            fn draw_as_image(&self, caps: u8, disc: u8, plan: &AsImagePlan) -> Result<Vec<Option<u32>>, String> {
                let img = self.as_image();
                draw_image_plan::<$c, _>(&img, $w, $h, caps, disc, plan)
            }
            fn with_target(&mut self, f: &mut dyn FnMut(&mut DynTarget<'_, $c>)) {
                let mut t = InfallibleTarget(self);
                let mut d = DynTarget::new(&mut t);
                f(&mut d)
            }
        }
    };
}

macro_rules! fb_mk {
    ($c:ty, $o:ty, $w:expr, $h:expr, $over:expr) => {
        Box::new(Framebuffer::<$c, <$c as PixelColor>::Raw, $o, $w, $h, { buffer_size::<$c>($w, $h) + extra::<$c>($w, $h, $over) }>::new())
            as Box<dyn FbOps<$c>>
    };
}

macro_rules! fb_pick {
    ($c:ty, $o:ty, $size:expr, $oversized:expr) => {
        match ($size, $oversized) {
            (0, false) => fb_mk!($c, $o, 0, 0, false),
            (0, true) => fb_mk!($c, $o, 0, 0, true),
            (1, false) => fb_mk!($c, $o, 1, 1, false),
            (1, true) => fb_mk!($c, $o, 1, 1, true),
            (2, false) => fb_mk!($c, $o, 3, 2, false),
            (2, true) => fb_mk!($c, $o, 3, 2, true),
            (3, false) => fb_mk!($c, $o, 5, 4, false),
            (3, true) => fb_mk!($c, $o, 5, 4, true),
            (4, false) => fb_mk!($c, $o, 8, 3, false),
            (4, true) => fb_mk!($c, $o, 8, 3, true),
            (5, false) => fb_mk!($c, $o, 9, 2, false),
            (5, true) => fb_mk!($c, $o, 9, 2, true),
            (6, false) => fb_mk!($c, $o, 13, 3, false),
            (6, true) => fb_mk!($c, $o, 13, 3, true),
            (7, false) => fb_mk!($c, $o, 16, 1, false),
            (7, true) => fb_mk!($c, $o, 16, 1, true),
            (8, false) => fb_mk!($c, $o, 1, 5, false),
            (8, true) => fb_mk!($c, $o, 1, 5, true),
            (9, false) => fb_mk!($c, $o, 257, 2, false),
            (9, true) => fb_mk!($c, $o, 257, 2, true),
            (10, false) => fb_mk!($c, $o, 70, 3, false),
            (10, true) => fb_mk!($c, $o, 70, 3, true),
            (11, false) => fb_mk!($c, $o, 256, 257, false),
            _ => fb_mk!($c, $o, 256, 257, true),
        }
    };
}

macro_rules! fb_menu {
    ($c:ty, $fname:ident) => {
        fb_menu!(@sizes $c, LittleEndianMsb0, false);
        fb_menu!(@sizes $c, BigEndianLsb0, true);
        /// (order, size index, oversized) -> boxed framebuffer
        pub fn $fname(be: bool, size: usize, oversized: bool) -> Box<dyn FbOps<$c>> {
            if be {
                fb_pick!($c, BigEndianLsb0, size, oversized)
            } else {
                fb_pick!($c, LittleEndianMsb0, size, oversized)
            }
        }
    };
    (@sizes $c:ty, $o:ty, $be:expr) => {
        fb_menu!(@one $c, $o, $be, 0, 0);
        fb_menu!(@one $c, $o, $be, 1, 1);
        fb_menu!(@one $c, $o, $be, 3, 2);
        fb_menu!(@one $c, $o, $be, 5, 4);
        fb_menu!(@one $c, $o, $be, 8, 3);
        fb_menu!(@one $c, $o, $be, 9, 2);
        fb_menu!(@one $c, $o, $be, 13, 3);
        fb_menu!(@one $c, $o, $be, 16, 1);
        fb_menu!(@one $c, $o, $be, 1, 5);
        fb_menu!(@one $c, $o, $be, 257, 2);
        fb_menu!(@one $c, $o, $be, 70, 3);
        fb_menu!(@one $c, $o, $be, 256, 257);
    };
    (@one $c:ty, $o:ty, $be:expr, $w:expr, $h:expr) => {
        fb_impl!($c, $o, $be, $w, $h, buffer_size::<$c>($w, $h) + extra::<$c>($w, $h, false));
        fb_impl!($c, $o, $be, $w, $h, buffer_size::<$c>($w, $h) + extra::<$c>($w, $h, true));
    };
}

fb_menu!(BinaryColor, make_binary);
fb_menu!(Gray2, make_gray2);
fb_menu!(Gray4, make_gray4);
fb_menu!(Gray8, make_gray8);
fb_menu!(Rgb565, make_rgb565);
fb_menu!(Rgb888, make_rgb888);
fb_menu!(C32, make_c32);

pub trait FbColor: SimColor {
    fn make(be: bool, size: usize, oversized: bool) -> Box<dyn FbOps<Self>>;
}
macro_rules! fb_color {
    ($c:ty, $f:ident) => {
        impl FbColor for $c {
            fn make(be: bool, size: usize, oversized: bool) -> Box<dyn FbOps<Self>> {
                $f(be, size, oversized)
            }
        }
    };
}
fb_color!(BinaryColor, make_binary);
fb_color!(Gray2, make_gray2);
fb_color!(Gray4, make_gray4);
fb_color!(Gray8, make_gray8);
fb_color!(Rgb565, make_rgb565);
fb_color!(Rgb888, make_rgb888);
fb_color!(C32, make_c32);

// ---------------------------------------------------------------- scenario

#[derive(Clone, Debug, Hash)]
pub enum Step {
    SetPixel { p: [i32; 2], c: u32 },
    Target { stack: Vec<Ad>, op: HOp },
    Drawable { stack: Vec<Ad>, spec: DrawableSpec },
    /// XOR `mask` into byte `idx` of the used prefix through data_mut()
    FlipByte { idx: u32, mask: u8 },
    /// draw as_image() onto a device with this capability set / discipline and compare
    ReadBackAsImage { caps: u8, disc: u8 },
}

#[derive(Clone, Debug, Hash)]
pub struct Scenario {
    pub kind: ColorKind,
    pub be: bool,
    pub size: u8,
    pub oversized: bool,
    pub tail_fill: [u8; 3],
    pub steps: Vec<Step>,
}

const PROBES: &[&str] = &[
    "write_inside",
    "write_on_last_column",
    "write_on_last_row",
    "write_just_outside",
    "write_negative",
    "write_far_outside_wraps_to_inside_if_truncated",
    "write_i32_extreme",
    "step_all_writes_out_of_range",
    "byte_flip",
    "write_after_byte_flip",
    "oversized_buffer",
    "row_not_byte_aligned",
    "zero_sized_framebuffer",
    "set_pixel_direct",
    "default_fill_solid",
    "default_fill_contiguous",
    "default_clear",
    "draw_iter_op",
    "drawable_op",
    "through_adapter_stack",
    "as_image_drawn_native_contiguous",
    "as_image_drawn_draining",
    "as_image_sub_image_drawn",
    "as_image_drawn_through_clipped",
    "as_image_rows_hidden_skipping_consumer",
    "overwrite_same_pixel",
    "colour_zero_written",
    "x_mod_ppb_0",
    "x_mod_ppb_1",
    "x_mod_ppb_2",
    "x_mod_ppb_3",
    "x_mod_ppb_4_to_7",
];

const FAULTS: &[&str] = &["out_of_range_write_request", "stored_byte_flip", "oversized_tail_prefill"];

fn probe(name: &str) -> u64 {
    1u64 << PROBES.iter().position(|p| *p == name).expect("probe name")
}

fn gen_point(src: &mut Src, w: i32, h: i32) -> [i32; 2] {
    let one = |src: &mut Src, n: i32| -> i32 {
        match src.draw(12) {
            0..=5 => {
                if n > 0 {
                    src.draw(n as u32) as i32
                } else {
                    0
                }
            }
            6 => n - 1,
            7 => n,
            8 => -1 - src.draw(3) as i32,
            9 => {
                // would alias an in-range coordinate after a truncating cast
                let k = [1i32 << 16, -(1 << 16), 1 << 8, 256 * 3, 1 << 15, -(1 << 15), 1 << 24][src.draw(7) as usize];
                k + if n > 0 { src.draw(n as u32) as i32 } else { 0 }
            }
            10 => [i32::MIN, i32::MAX, i32::MIN + 1, i32::MAX - 1][src.draw(4) as usize],
            _ => n + src.draw(40) as i32,
        }
    };
    [one(src, w), one(src, h)]
}

fn gen_colour(src: &mut Src, mask: u32, step: u32) -> u32 {
    // distinct-ish per step, sometimes zero
    match src.draw(8) {
        0 => 0,
        1 => mask,
        _ => {
            if mask <= 0xFFFF {
                src.draw(mask + 1)
            } else {
                (src.u32_full() ^ step.wrapping_mul(0x9E37_79B9)) & mask
            }
        }
    }
}

impl C10 {
    fn gen_target_op(src: &mut Src, m: &StackModel, step: u32, direct: bool, w: i32, h: i32) -> HOp {
        let top = m.top_box();
        let mask = m.top_kind().mask();
        match src.draw(4) {
            0 => {
                let n = src.draw(10);
                let mut px = Vec::new();
                for _ in 0..n {
                    let p = if direct {
                        gen_point(src, w, h)
                    } else if top.is_empty() {
                        [src.sym(6), src.sym(6)]
                    } else {
                        [
                            top.x0 as i32 - 2 + src.draw(top.w() as u32 + 4) as i32,
                            top.y0 as i32 - 2 + src.draw(top.h() as u32 + 4) as i32,
                        ]
                    };
                    px.push((p[0], p[1], gen_colour(src, mask, step)));
                }
                HOp::DrawIter(px)
            }
            1 => {
                let area = gen_rect_rel(src, &top, 12);
                let n = (area[2].max(0) * area[3].max(0)) as u32;
                let len = match src.draw(4) {
                    0 => n,
                    1 if n > 0 => src.draw(n),
                    2 => n + 1 + src.draw(3),
                    _ => n,
                };
                let colours = (0..len).map(|_| gen_colour(src, mask, step)).collect();
                let repeat = if src.draw(6) == 5 { Some(gen_colour(src, mask, step)) } else { None };
                HOp::FillContiguous { area, colours, repeat }
            }
            2 => HOp::FillSolid {
                area: gen_rect_rel(src, &top, 12),
                colour: gen_colour(src, mask, step),
            },
            _ => HOp::Clear(gen_colour(src, mask, step)),
        }
    }
}

fn hop_to_top(op: &HOp) -> TOp {
    match op {
        HOp::DrawIter(p) => TOp::DrawIter(p.clone()),
        HOp::FillContiguous { area, colours, repeat } => TOp::FillContiguous {
            area: *area,
            colours: colours.clone(),
            repeat: *repeat,
        },
        HOp::FillSolid { area, colour } => TOp::FillSolid {
            area: *area,
            colour: *colour,
        },
        HOp::Clear(c) => TOp::Clear(*c),
    }
}

struct TargetOpVisitor<'a> {
    op: &'a TOp,
}
impl Visitor for TargetOpVisitor<'_> {
    type Out = Result<(), SimError>;
    fn visit<C: SimColor>(&mut self, top: &mut DynTarget<'_, C>, _b: &[Rectangle]) -> Self::Out {
        match self.op {
            TOp::DrawIter(px) => top.draw_iter(Vague::new(px.iter().map(|(x, y, c)| Pixel(Point::new(*x, *y), C::from_u32(*c))), hint_mode(self.op))),
            TOp::FillContiguous { area, colours, repeat } => {
                let a = crate::erased::rect_of(area);
                let it = colours.iter().map(|c| C::from_u32(*c));
                match repeat {
                    Some(r) => top.fill_contiguous(&a, Vague::new(it.chain(core::iter::repeat(C::from_u32(*r))), hint_mode(self.op))),
                    None => top.fill_contiguous(&a, Vague::new(it, hint_mode(self.op))),
                }
            }
            TOp::FillSolid { area, colour } => top.fill_solid(&crate::erased::rect_of(area), C::from_u32(*colour)),
            TOp::Clear(c) => top.clear(C::from_u32(*c)),
        }
    }
}

struct DrawableVisitor<'a> {
    spec: &'a DrawableSpec,
}
impl Visitor for DrawableVisitor<'_> {
    type Out = Result<(), SimError>;
    fn visit<C: SimColor>(&mut self, top: &mut DynTarget<'_, C>, _b: &[Rectangle]) -> Self::Out {
        draw_spec::<C, _>(self.spec, Path::Draw, top).map(|_| ())
    }
}

fn step_json(s: &Step) -> J {
    match s {
        Step::SetPixel { p, c } => J::obj().set("set_pixel", J::ints(&[p[0] as i64, p[1] as i64, *c as i64])),
        Step::Target { stack, op } => J::obj()
            .set("stack_device_first", stack_json(stack))
            .set("op", hop_to_top(op).to_json()),
        Step::Drawable { stack, spec } => J::obj()
            .set("stack_device_first", stack_json(stack))
            .set("draw", spec.to_json()),
        Step::FlipByte { idx, mask } => J::obj().set("flip_stored_byte", J::ints(&[*idx as i64, *mask as i64])),
        Step::ReadBackAsImage { caps, disc } => J::obj().set(
            "draw_as_image_onto",
            J::s(format!("{} / {}", crate::dev::caps_name(*caps), crate::dev::DISCIPLINES[*disc as usize].name())),
        ),
    }
}

fn run_typed<C: FbColor>(sc: &Scenario, opts: &Opts) -> RunOut {
    let mut out = RunOut::default();
    out.scen_hash = det_hash(sc);
    let mut trace = Hash64::new();
    trace.u64(out.scen_hash);
    let (w, h) = SIZES[sc.size as usize];
    let bits = sc.kind.bits();
    let kind_idx = KINDS7.iter().position(|k| *k == sc.kind).unwrap() as u32;
    out.lattice = ((kind_idx * 2 + sc.be as u32) * 12 + sc.size as u32) * 2 + sc.oversized as u32;
    let stride = ((w as usize) * bits as usize + 7) / 8;
    let used = stride * h as usize;
    let ppb = if bits < 8 { 8 / bits } else { 1 };
    let tail_len: usize = if sc.oversized {
        match (w, h) {
            (5, 4) | (9, 2) | (70, 3) => 2 * stride + 1,
            _ => 3,
        }
    } else {
        0
    };
    let tail_pattern: Vec<u8> = (0..tail_len).map(|i| sc.tail_fill[i % 3].wrapping_add((i / 3) as u8 * 29)).collect();
    if (w * bits) % 8 != 0 {
        out.probes |= probe("row_not_byte_aligned");
    }
    if w == 0 {
        out.probes |= probe("zero_sized_framebuffer");
    }
    if sc.oversized {
        out.probes |= probe("oversized_buffer");
        out.faults_configured[2] += 1;
        out.faults_fired[2] += 1;
    }
    if opts.describe {
        out.desc = Some(
            J::obj()
                .set(
                    "framebuffer",
                    J::obj()
                        .set("colour", J::s(sc.kind.name()))
                        .set("order", J::s(if sc.be { "BigEndianLsb0" } else { "LittleEndianMsb0" }))
                        .set("size", J::ints(&[w as i64, h as i64]))
                        .set("buffer_len", J::Int((used + tail_len) as i64))
                        .set("used_prefix", J::Int(used as i64)),
                )
                .set("steps", J::Arr(sc.steps.iter().map(step_json).collect())),
        );
    }

    let mk = |si: usize, class: &'static str, msg: String| {
        Violation::new(
            class,
            format!(
                "step {}: {} [{} {} {}x{}{}]",
                si + 1,
                msg,
                sc.kind.name(),
                if sc.be { "BigEndianLsb0" } else { "LittleEndianMsb0" },
                w,
                h,
                if sc.oversized { " oversized" } else { "" }
            ),
        )
        .fact("colour", sc.kind.name())
        .fact("order", if sc.be { "be" } else { "le" })
        .fact("sub_byte", (bits < 8).to_string())
    };

    let mut fb = match guarded(|| C::make(sc.be, sc.size as usize, sc.oversized)) {
        Ok(f) => f,
        Err(p) => {
            out.violation = Some(mk(0, "panic", format!("Framebuffer::new panicked: {}", p)));
            out.trace_hash = trace.finish();
            return out;
        }
    };
    if fb.fb_data().len() != used + tail_len {
        out.violation = Some(mk(0, "harness", format!("buffer length {} unexpected", fb.fb_data().len())));
        out.trace_hash = trace.finish();
        return out;
    }
    if sc.oversized {
        let d = fb.fb_data_mut();
        d[used..used + tail_len].copy_from_slice(&tail_pattern);
    }
    let fb_box = R::xywh(0, 0, w as i64, h as i64);
    let mut model: Vec<u32> = vec![0; (w * h) as usize];
    let mut written: Vec<bool> = vec![false; (w * h) as usize];
    let mut flipped = false;

    let big = (w as u64) * (h as u64) > 4096;
    let step_pts: std::cell::RefCell<Vec<(i32, i32)>> = std::cell::RefCell::new(Vec::new());
    let apply = |model: &mut Vec<u32>, written: &mut Vec<bool>, x: i64, y: i64, c: u32, out: &mut RunOut| -> bool {
        if fb_box.contains(x, y) {
            let i = (y * w as i64 + x) as usize;
            if big {
                let mut sp = step_pts.borrow_mut();
                if sp.len() < 4096 {
                    sp.push((x as i32, y as i32));
                }
            }
            if written[i] {
                out.probes |= probe("overwrite_same_pixel");
            }
            if c == 0 {
                out.probes |= probe("colour_zero_written");
            }
            model[i] = c;
            written[i] = true;
            out.probes |= probe("write_inside");
            if x == w as i64 - 1 {
                out.probes |= probe("write_on_last_column");
            }
            if y == h as i64 - 1 {
                out.probes |= probe("write_on_last_row");
            }
            let m = (x as u32) % ppb.max(1);
            out.probes |= probe(match m {
                0 => "x_mod_ppb_0",
                1 => "x_mod_ppb_1",
                2 => "x_mod_ppb_2",
                3 => "x_mod_ppb_3",
                _ => "x_mod_ppb_4_to_7",
            });
            true
        } else {
            if x == w as i64 || y == h as i64 {
                out.probes |= probe("write_just_outside");
            }
            if x < 0 || y < 0 {
                out.probes |= probe("write_negative");
            }
            if x.abs() >= 256 || y.abs() >= 256 {
                out.probes |= probe("write_far_outside_wraps_to_inside_if_truncated");
            }
            if x.abs() > (1 << 30) || y.abs() > (1 << 30) {
                out.probes |= probe("write_i32_extreme");
            }
            false
        }
    };

    for (si, step) in sc.steps.iter().enumerate() {
        out.sub_evals += 1;
        step_pts.borrow_mut().clear();
        let before: Vec<u8> = fb.fb_data().to_vec();
        let mut in_range_writes = 0u64;
        let mut addressed = 0u64;
        let mut panicked: Option<String> = None;
        let mut check_identical_if_no_write = true;
        match step {
            Step::SetPixel { p, c } => {
                out.probes |= probe("set_pixel_direct");
                addressed += 1;
                if apply(&mut model, &mut written, p[0] as i64, p[1] as i64, *c, &mut out) {
                    in_range_writes += 1;
                }
                if let Err(e) = guarded(|| fb.fb_set_pixel(p[0], p[1], *c)) {
                    panicked = Some(e);
                }
            }
            Step::Target { stack, .. } | Step::Drawable { stack, .. } => {
                if !stack.is_empty() {
                    out.probes |= probe("through_adapter_stack");
                }
                let m = StackModel::new(fb_box, sc.kind, stack);
                if m.has_crop_over_empty() {
                    continue;
                }
                let top = match step {
                    Step::Target { op, .. } => Some(hop_to_top(op)),
                    _ => None,
                };
                match (&top, step) {
                    (Some(TOp::DrawIter(_)), _) => out.probes |= probe("draw_iter_op"),
                    (Some(TOp::FillContiguous { .. }), _) => out.probes |= probe("default_fill_contiguous"),
                    (Some(TOp::FillSolid { .. }), _) => out.probes |= probe("default_fill_solid"),
                    (Some(TOp::Clear(_)), _) => out.probes |= probe("default_clear"),
                    _ => out.probes |= probe("drawable_op"),
                }
                // Reference: the same operation through the same adapter stack on a draw_iter-only
                // simulated device of the same size (like for like: the framebuffer is a
                // draw_iter-only target that inherits the same trait defaults), with item logging:
                // the ordered pixel sequence that device receives is what the framebuffer is written
                // with. Adapters, trait defaults and drawables are thereby the same code on both
                // sides; only the framebuffer's own set_pixel / pixel / as_image are judged.
                let mut dev = SimDisplay::<C>::with_memory(
                    Rectangle::new(Point::zero(), Size::new(w, h)),
                    0,
                    crate::dev::Discipline::ZipPointsFirst,
                    false,
                );
                dev.st.log_items = true;
                let rr: Result<Result<(), SimError>, String> = match (&top, step) {
                    (Some(t), _) => {
                        let mut v = TargetOpVisitor { op: t };
                        guarded(|| {
                            let mut boxes = Vec::new();
                            let mut d = DynTarget::new(&mut dev);
                            with_stack(&mut d, stack, &mut boxes, &mut v)
                        })
                    }
                    (None, Step::Drawable { spec, .. }) => {
                        let mut v = DrawableVisitor { spec };
                        guarded(|| {
                            let mut boxes = Vec::new();
                            let mut d = DynTarget::new(&mut dev);
                            with_stack(&mut d, stack, &mut boxes, &mut v)
                        })
                    }
                    _ => unreachable!(),
                };
                let r: Result<Result<(), SimError>, String> = match (&top, step) {
                    (Some(t), _) => {
                        let mut v = TargetOpVisitor { op: t };
                        guarded(|| {
                            let mut res: Result<(), SimError> = Ok(());
                            fb.with_target(&mut |t| {
                                let mut boxes = Vec::new();
                                res = with_stack(t, stack, &mut boxes, &mut v);
                            });
                            res
                        })
                    }
                    (None, Step::Drawable { spec, .. }) => {
                        let mut v = DrawableVisitor { spec };
                        guarded(|| {
                            let mut res: Result<(), SimError> = Ok(());
                            fb.with_target(&mut |t| {
                                let mut boxes = Vec::new();
                                res = with_stack(t, stack, &mut boxes, &mut v);
                            });
                            res
                        })
                    }
                    _ => unreachable!(),
                };
                match (&rr, &r) {
                    (Err(_), Err(_)) => {
                        // panics identically on the reference device: not this property's business;
                        // the state after a panicking operation is unspecified, so the history ends
                        out.skipped = Some("operation_panicked_on_reference_device_too");
                        break;
                    }
                    (_, Err(e)) => panicked = Some(e.clone()),
                    (Err(e), _) => panicked = Some(format!("reference device run panicked but framebuffer run did not: {}", e)),
                    (_, Ok(Err(e))) => panicked = Some(format!("operation returned Err({:#x})", e.0)),
                    _ => {}
                }
                for c in &dev.st.calls {
                    for (x, y, col) in &c.items {
                        addressed += 1;
                        if apply(&mut model, &mut written, *x as i64, *y as i64, *col, &mut out) {
                            in_range_writes += 1;
                        }
                    }
                }
            }
            Step::FlipByte { idx, mask } => {
                if used == 0 {
                    continue;
                }
                out.probes |= probe("byte_flip");
                out.faults_configured[1] += 1;
                out.faults_fired[1] += 1;
                let i = (*idx as usize) % used;
                fb.fb_data_mut()[i] ^= *mask;
                flipped = true;
                // the framebuffer and as_image() are over the same bytes: re-read the model through
                // the independent decoder
                let d = fb.fb_data().to_vec();
                for y in 0..h {
                    for x in 0..w {
                        model[(y * w + x) as usize] = ref_pixel(&d[..used], w, bits, sc.be, x, y);
                    }
                }
                check_identical_if_no_write = false;
                in_range_writes = 1;
            }
            Step::ReadBackAsImage { caps, disc } => {
                if *caps & crate::dev::CAP_CONTIG != 0 {
                    out.probes |= probe("as_image_drawn_native_contiguous");
                }
                if *disc == 3 {
                    out.probes |= probe("as_image_drawn_draining");
                }
                let plan = AsImagePlan::derive(si, *caps, *disc, w, h);
                if plan.sub.is_some() {
                    out.probes |= probe("as_image_sub_image_drawn");
                }
                if plan.clip.is_some() {
                    out.probes |= probe("as_image_drawn_through_clipped");
                }
                if plan.at[1] < -1 && *disc == 4 {
                    out.probes |= probe("as_image_rows_hidden_skipping_consumer");
                }
                let want = plan.expected(&model, w, h);
                match guarded(|| fb.draw_as_image(*caps, *disc, &plan)) {
                    Err(p) => panicked = Some(p),
                    Ok(Err(e)) => {
                        out.violation = Some(mk(si, "as_image", format!("{} (read-back plan {})", e, plan.to_json().to_string())));
                    }
                    Ok(Ok(mem)) => {
                        for (i, cell) in mem.iter().enumerate() {
                            if *cell != want[i] {
                                out.violation = Some(mk(
                                    si,
                                    "as_image",
                                    format!(
                                        "drawing as_image() put {:?} at ({},{}) but the reference map says {:?} (read-back plan {})",
                                        cell,
                                        i as u32 % w,
                                        i as u32 / w,
                                        want[i],
                                        plan.to_json().to_string()
                                    ),
                                ));
                                break;
                            }
                        }
                    }
                }
            }
        }
        if addressed > 0 && in_range_writes == 0 {
            out.probes |= probe("step_all_writes_out_of_range");
            out.faults_configured[0] += 1;
            out.faults_fired[0] += 1;
        }
        if flipped && matches!(step, Step::SetPixel { .. } | Step::Target { .. } | Step::Drawable { .. }) && in_range_writes > 0 {
            out.probes |= probe("write_after_byte_flip");
        }
        if let Some(p) = panicked {
            out.violation = Some(mk(si, "panic", format!("operation panicked: {}", p)));
        }
        // checks after the step
        if out.violation.is_none() {
            let d = fb.fb_data();
            if sc.oversized && d[used..used + tail_len] != tail_pattern[..] {
                out.violation = Some(mk(
                    si,
                    "tail_modified",
                    format!(
                        "bytes beyond the used prefix changed from {:?} to {:?}",
                        &tail_pattern[..tail_len.min(12)],
                        &d[used..used + tail_len.min(12)]
                    ),
                ));
            } else if in_range_writes == 0 && check_identical_if_no_write && d != &before[..] {
                out.violation = Some(mk(si, "out_of_range_write_changed_bytes", "no write of this step was inside WIDTH x HEIGHT but data() changed".into()));
            }
        }
        // which points to read back: everything (box plus margin) for ordinary framebuffers; for
        // the big ones the pixels addressed by this step and their neighbours, the corners and 512
        // positions derived from the scenario hash
        let mut pts: Vec<(i32, i32)> = Vec::new();
        if !big {
            for y in -1..h as i32 + 1 {
                for x in -1..w as i32 + 1 {
                    pts.push((x, y));
                }
            }
        } else {
            for (x, y) in step_pts.borrow().iter() {
                for (dx, dy) in [(0, 0), (-1, 0), (1, 0), (0, -1), (0, 1)] {
                    pts.push((x + dx, y + dy));
                }
            }
            let (wi, hi) = (w as i32, h as i32);
            for (x, y) in [(0, 0), (wi - 1, 0), (0, hi - 1), (wi - 1, hi - 1), (-1, 0), (wi, 0), (0, -1), (0, hi), (wi - 1, hi), (wi, hi - 1)] {
                pts.push((x, y));
            }
            let mut st = out.scen_hash ^ (si as u64).wrapping_mul(0x9E37_79B9_7F4A_7C15);
            for _ in 0..512 {
                let v = crate::rng::splitmix64(&mut st);
                pts.push(((v % w as u64) as i32, ((v >> 32) % h as u64) as i32));
            }
        }
        if out.violation.is_none() {
            let pts_ref = &pts;
            let r = guarded(|| {
                for (x, y) in pts_ref.iter() {
                    let (x, y) = (*x, *y);
                    let got = fb.fb_pixel(x, y);
                    let want = if x >= 0 && y >= 0 && x < w as i32 && y < h as i32 {
                        Some(model[(y as u32 * w + x as u32) as usize])
                    } else {
                        None
                    };
                    if got != want {
                        return Err(format!("pixel(({},{})) returned {:?}, reference map says {:?}", x, y, got, want));
                    }
                }
                for (x, y) in [(i32::MIN, 0), (0, i32::MAX), (65536, 0), (0, 65536), (-65536, 0), (w as i32 + 256, 0)] {
                    if let Some(c) = fb.fb_pixel(x, y) {
                        return Err(format!("pixel(({},{})) returned Some({}) outside the framebuffer", x, y, c));
                    }
                }
                Ok(())
            });
            match r {
                Err(p) => out.violation = Some(mk(si, "panic", format!("pixel() panicked: {}", p))),
                Ok(Err(m)) => out.violation = Some(mk(si, "readback_mismatch", m)),
                Ok(Ok(())) => {}
            }
        }
        if out.violation.is_none() {
            let inside: Vec<(i32, i32)> = pts.iter().copied().filter(|(x, y)| *x >= 0 && *y >= 0 && (*x as i64) < w as i64 && (*y as i64) < h as i64).collect();
            match guarded(|| fb.as_image_consistent(used, &inside)) {
                Err(p) => out.violation = Some(mk(si, "panic", format!("as_image() panicked: {}", p))),
                Ok(Err(m)) => out.violation = Some(mk(si, "as_image", m)),
                Ok(Ok(())) => {}
            }
        }
        let mut hh = Hash64::new();
        hh.bytes(fb.fb_data());
        trace.u64(hh.finish());
        if out.violation.is_some() {
            break;
        }
    }
    if let Some(v) = &out.violation {
        trace.str(v.class);
    }
    if opts.describe {
        out.trace.push(format!("final data(): {:?}", fb.fb_data()));
    }
    out.nontrivial = written.iter().any(|b| *b);
    out.calls = sc.steps.len() as u64;
    let mut sh = Hash64::new();
    for s in &sc.steps {
        sh.u32(match s {
            Step::SetPixel { .. } => 0,
            Step::Target { op, .. } => 1 + match op {
                HOp::DrawIter(_) => 0,
                HOp::FillContiguous { .. } => 1,
                HOp::FillSolid { .. } => 2,
                HOp::Clear(_) => 3,
            },
            Step::Drawable { spec, .. } => 10 + spec.kind_index(),
            Step::FlipByte { .. } => 40,
            Step::ReadBackAsImage { .. } => 41,
        });
    }
    sh.u32(out.lattice);
    out.shape_hash = sh.finish();
    out.trace_hash = trace.finish();
    out
}

impl Property for C10 {
    type Scenario = Scenario;

    fn id(&self) -> &'static str {
        "C10"
    }
    fn level(&self) -> &'static str {
        "exploration"
    }
    fn technique(&self) -> &'static str {
        "deterministic simulation: seeded write histories with faulty (out-of-range) requests and stored-byte flips on real Framebuffers, checked step by step against a reference map and an independent layout decoder"
    }
    fn runs(&self, tier: Tier) -> u64 {
        match tier {
            Tier::Quick => 1_000_000,
            Tier::Thorough => 30_000_000,
        }
    }
    fn probe_names(&self) -> &'static [&'static str] {
        PROBES
    }
    fn fault_names(&self) -> &'static [&'static str] {
        FAULTS
    }
    fn lattice_size(&self) -> u32 {
        7 * 2 * 12 * 2
    }
    fn lattice_desc(&self) -> &'static str {
        "raw width (7) x data order (2) x framebuffer size (12: 0x0,1x1,3x2,5x4,8x3,9x2,13x3,16x1 and, rarely drawn, 1x5,257x2,70x3,256x257) x buffer exact/oversized (2)"
    }
    fn sub_eval_name(&self) -> &'static str {
        "history_steps_checked"
    }
    fn rule(&self) -> &'static str {
        "one seeded history = Framebuffer type (7 raw widths x 2 data orders x 8 sizes x exact / +3 byte buffer with seeded tail) + 1..12 steps: set_pixel, draw_iter / fill_contiguous / fill_solid / clear (the framebuffer inherits the three defaults) and drawables, directly or through an adapter stack, with points inside, on the edge, negative, aliasing after truncation and at i32 extremes; XOR of seeded bits into stored bytes via data_mut(); draw of as_image() onto a simulated device (whole / shifted so that rows and columns are hidden / a sub_image of it / through a clipped target; consumers incl. nth-skipping and next + for_each). After every step: pixel(p) == reference map on the box plus margin and None at extreme points, tail bytes untouched, data() unchanged by a step without in-range write, as_image() == ImageRaw over the used prefix. distinct = 64-bit hash of the decoded history; non-trivial = at least one in-range pixel written"
    }
    fn assumptions(&self) -> Vec<&'static str> {
        vec![
            "after a byte flip the reference map is re-read through the independent layout decoder (the reading of the documented ImageRaw layout that C09 checks)",
            "drawables are referenced by drawing them onto a draw_iter-only SimDisplay of the same size through the same adapter stack",
            "padding bits of rows are not constrained",
            "const generics force a fixed menu of 336 framebuffer types; for framebuffers with more than 4096 pixels the read-back after a step covers the pixels addressed by the step and their neighbours, the corners, and 512 positions derived from the scenario hash instead of every pixel",
        ]
    }

    fn gen(&self, src: &mut Src) -> Scenario {
        let kind = KINDS7[src.draw(7) as usize];
        let be = src.bool();
        let size = if src.draw(8) == 7 { 8 + src.draw(4) as u8 } else { src.draw(8) as u8 };
        let oversized = src.bool();
        let tail_fill = [src.draw(256) as u8, src.draw(256) as u8, src.draw(256) as u8];
        let (w, h) = SIZES[size as usize];
        let fb_box = R::xywh(0, 0, w as i64, h as i64);
        let n = 1 + src.draw(if crate::prop::deep() { 24 } else { 12 });
        let mut steps = Vec::new();
        for si in 0..n {
            let s = match src.draw(10) {
                0 | 1 | 2 => Step::SetPixel {
                    p: gen_point(src, w as i32, h as i32),
                    c: gen_colour(src, kind.mask(), si),
                },
                3 | 4 | 5 => {
                    let direct = src.draw(3) != 0;
                    let stack = if direct {
                        Vec::new()
                    } else {
                        gen_stack(src, &fb_box, kind, 3, true, 12, true, false)
                    };
                    let m = StackModel::new(fb_box, kind, &stack);
                    let op = C10::gen_target_op(src, &m, si, stack.is_empty(), w as i32, h as i32);
                    Step::Target { stack, op }
                }
                6 => {
                    let stack = if src.bool() {
                        Vec::new()
                    } else {
                        gen_stack(src, &fb_box, kind, 2, true, 12, true, false)
                    };
                    let m = StackModel::new(fb_box, kind, &stack);
                    let tk = m.top_kind();
                    let mut knobs = gen_knobs(src, tk.mask(), false);
                    knobs.scale = 8;
                    knobs.max_width = knobs.max_width.min(5);
                    let spec = gen_drawable(src, &knobs, tk.bits());
                    Step::Drawable { stack, spec }
                }
                7 => Step::FlipByte {
                    idx: src.draw(64),
                    mask: 1u8 << src.draw(8),
                },
                _ => Step::ReadBackAsImage {
                    // always with a native fill_contiguous, so that no trait default is involved
                    caps: src.draw(8) as u8 | crate::dev::CAP_CONTIG,
                    disc: src.draw(crate::dev::N_DISC) as u8,
                },
            };
            steps.push(s);
        }
        Scenario {
            kind,
            be,
            size,
            oversized,
            tail_fill,
            steps,
        }
    }

    fn exec(&self, sc: &Scenario, opts: &Opts) -> RunOut {
        match sc.kind {
            ColorKind::Binary => run_typed::<BinaryColor>(sc, opts),
            ColorKind::Gray2 => run_typed::<Gray2>(sc, opts),
            ColorKind::Gray4 => run_typed::<Gray4>(sc, opts),
            ColorKind::Gray8 => run_typed::<Gray8>(sc, opts),
            ColorKind::Rgb565 => run_typed::<Rgb565>(sc, opts),
            ColorKind::Rgb888 => run_typed::<Rgb888>(sc, opts),
            ColorKind::C32 => run_typed::<C32>(sc, opts),
            k => unreachable!("{} is only used by C20", k.name()),
        }
    }
}
