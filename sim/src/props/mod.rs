pub mod c01;
pub mod c03;
pub mod c04;
pub mod c09;
pub mod c10;
pub mod c20;
