pub mod c04;
