pub mod c01;
pub mod c03;
pub mod c04;
