//! C01 — one image per drawable, whichever drawing path the target offers.
//!
//! Path A: draw() on a draw_iter-only device (every fill goes through the real trait defaults).
//! Path B: draw() on a device with a seeded non-empty set of native fill methods and a seeded
//!         stream-consumption discipline.
//! Path C: (styled primitives) target.draw_iter(styled.pixels()) on the path-A device.
//! Same device box, same adapter stack. Oracle: the pixel maps left on the device are equal.

use crate::dev::ColorKind;
use crate::erased::Ad;
use crate::exec::{run_drawable, DrawRun, RunCfg};
use crate::json::J;
use crate::prop::{Opts, Property, RunOut, Tier, Violation};
use crate::rng::{det_hash, Hash64, Src};
use crate::scen::{gen_small_box, gen_stack, stack_json, DevCfg};
use crate::workload::{gen_drawable, gen_knobs, DrawableSpec, Path, Shape};

pub struct C01;

#[derive(Clone, Debug, Hash)]
pub struct Scenario {
    pub bbox: [i32; 4],
    pub dev_kind: ColorKind,
    pub caps_b: u8,
    pub disc_b: u8,
    pub stack: Vec<Ad>,
    pub drawable: DrawableSpec,
}

const PROBES: &[&str] = &[
    "pixels_path_compared",
    "fill_area_collapsed",
    "stroke_wider_than_shape",
    "stroke_without_colour",
    "fill_only",
    "stroke_only",
    "thin_shape",
    "zero_size",
    "polyline_translated",
    "polyline_thick",
    "through_adapter_stack",
    "device_clips_drawing",
    "device_contains_drawing",
    "text_mode_fg",
    "text_mode_bg",
    "text_mode_both",
    "text_decorated",
    "text_custom_font_spacing",
    "text_multiline",
    "image_width_not_multiple_of_ppb",
    "sub_image_nested",
    "native_fill_solid",
    "native_fill_contiguous",
    "native_clear",
    "discipline_drain",
    "kind_rectangle",
    "kind_circle",
    "kind_ellipse",
    "kind_rounded_rectangle",
    "kind_triangle",
    "kind_line",
    "kind_arc",
    "kind_sector",
    "kind_polyline",
    "kind_image",
    "kind_sub_image",
    "kind_text",
    "nothing_drawn",
    "colour_stream_next_then_for_each",
    "pixel_stream_for_each",
    "size_hint_compared_with_observed_end",
];

const FAULTS: &[&str] = &["none (fault-free configuration; environment variation only)"];

fn probe(name: &str) -> u64 {
    1u64 << PROBES.iter().position(|p| *p == name).expect("probe name")
}

/// Union of the extents the two runs stored to (cells outside are untouched on both).
fn dirty_union(a: &DrawRun, b: &DrawRun) -> Option<crate::model::R> {
    match (a.st.dirty, b.st.dirty) {
        (None, None) => None,
        (Some(x), None) | (None, Some(x)) => Some(x),
        (Some(x), Some(y)) => {
            let mut u = x;
            u.grow(y.x0, y.y0);
            u.grow(y.x1 - 1, y.y1 - 1);
            Some(u)
        }
    }
}

fn first_diff(a: &DrawRun, b: &DrawRun) -> Option<(i32, i32, Option<u32>, Option<u32>)> {
    let rb = a.st.rb;
    let u = dirty_union(a, b)?;
    let w = rb.w();
    for y in u.y0..u.y1 {
        for x in u.x0..u.x1 {
            let i = ((y - rb.y0) * w + (x - rb.x0)) as usize;
            if a.st.memory[i] != b.st.memory[i] {
                return Some((x as i32, y as i32, a.st.memory[i], b.st.memory[i]));
            }
        }
    }
    None
}

fn count_diff(a: &DrawRun, b: &DrawRun) -> usize {
    let rb = a.st.rb;
    let u = match dirty_union(a, b) {
        Some(u) => u,
        None => return 0,
    };
    let w = rb.w();
    let mut n = 0;
    for y in u.y0..u.y1 {
        for x in u.x0..u.x1 {
            let i = ((y - rb.y0) * w + (x - rb.x0)) as usize;
            if a.st.memory[i] != b.st.memory[i] {
                n += 1;
            }
        }
    }
    n
}

impl Property for C01 {
    type Scenario = Scenario;

    fn id(&self) -> &'static str {
        "C01"
    }
    fn level(&self) -> &'static str {
        "exploration"
    }
    fn technique(&self) -> &'static str {
        "deterministic simulation: differential execution of one drawable over simulated devices that differ in capability set and stream-consumption discipline (real trait defaults vs native fills) plus the pixels() path"
    }
    fn runs(&self, tier: Tier) -> u64 {
        match tier {
            Tier::Quick => 1_500_000,
            Tier::Thorough => 40_000_000,
        }
    }
    fn probe_names(&self) -> &'static [&'static str] {
        PROBES
    }
    fn fault_names(&self) -> &'static [&'static str] {
        FAULTS
    }
    fn lattice_size(&self) -> u32 {
        7 * 5 * 12
    }
    fn lattice_desc(&self) -> &'static str {
        "non-empty native capability set of path B (7) x consumption discipline (5) x drawable kind (12)"
    }
    fn sub_eval_name(&self) -> &'static str {
        "device_runs"
    }
    fn rule(&self) -> &'static str {
        "one seeded scenario = one drawable (styled primitive with solid stroke / polyline / image / sub-image / text; all style switches, stroke widths biased to exceed the shape) + device box (contains the drawing in ~half of the runs, otherwise small/empty/non-origin) + optional adapter stack + path-B capability set and discipline; rendered by draw() on a draw_iter-only device, draw() on the native device and (styled primitives) pixels() via draw_iter; pixel maps must be equal and no stream may contradict its own size_hint() (devices consume with next / nth / for_each, also mixed on one stream). distinct = 64-bit hash of the decoded scenario; non-trivial = at least one pixel of the device was set on some path"
    }
    fn assumptions(&self) -> Vec<&'static str> {
        vec![
            "SimDisplay models conforming drivers; native fills have their documented meaning",
            "only the pixel map left on the device is compared (a renderer may cull against the target box on one path and not on another)",
            "coordinates within +-64, sizes <= 64, stroke width <= 66 in most runs; 1 run in 256 uses coordinates within +-300, sizes <= 300 and stroke widths <= 140 on a 1000x1000 device; release arithmetic, default features",
            "a drawable that panics identically on every path is skipped (totality is C08, not claimed)",
        ]
    }

    fn gen(&self, src: &mut Src) -> Scenario {
        let dev_kind = crate::exec::gen_dev_kind(src);
        // 1 run in 256: display-scale sizes and coordinates (up to 300, stroke widths up to 140)
        let huge = if crate::prop::deep() { src.draw(64) == 63 } else { src.draw(256) == 255 };
        let large = src.draw(5) < 3;
        let bbox = if huge {
            [-330, -330, 1000, 1000]
        } else if large {
            [-100, -100, 240, 240]
        } else {
            gen_small_box(src)
        };
        let caps_b = 1 + src.draw(7) as u8;
        let disc_b = src.draw(crate::dev::N_DISC) as u8;
        let dev = DevCfg { bbox, caps: 0, disc: 0 };
        let stack = if src.draw(3) == 0 {
            gen_stack(src, &dev.r(), dev_kind, 3, true, 24, true, false)
        } else {
            Vec::new()
        };
        let sm = crate::model::StackModel::new(dev.r(), dev_kind, &stack);
        let top_kind = sm.top_kind();
        let mut knobs = gen_knobs(src, top_kind.mask(), false);
        if huge {
            knobs.scale = 300;
            knobs.max_width = 140;
        }
        knobs.aim_at(&sm.top_box());
        let drawable = gen_drawable(src, &knobs, top_kind.bits());
        Scenario {
            bbox,
            dev_kind,
            caps_b,
            disc_b,
            stack,
            drawable,
        }
    }

    fn exec(&self, sc: &Scenario, opts: &Opts) -> RunOut {
        let mut out = RunOut::default();
        out.scen_hash = det_hash(sc);
        let mut trace = Hash64::new();
        trace.u64(out.scen_hash);
        let kind = sc.drawable.kind();
        out.probes |= probe(&format!("kind_{}", kind));
        out.lattice = ((sc.caps_b as u32 - 1) * crate::dev::N_DISC + sc.disc_b as u32) * 12 + sc.drawable.kind_index();
        if sc.caps_b & crate::dev::CAP_SOLID != 0 {
            out.probes |= probe("native_fill_solid");
        }
        if sc.caps_b & crate::dev::CAP_CONTIG != 0 {
            out.probes |= probe("native_fill_contiguous");
        }
        if sc.caps_b & crate::dev::CAP_CLEAR != 0 {
            out.probes |= probe("native_clear");
        }
        if sc.disc_b == 3 {
            out.probes |= probe("discipline_drain");
        }
        if !sc.stack.is_empty() {
            out.probes |= probe("through_adapter_stack");
        }
        let mut facts: Vec<(&'static str, String)> = vec![("kind", kind.to_string())];
        match &sc.drawable {
            DrawableSpec::Styled { shape, style } => {
                let ext = shape.min_extent();
                let eff_stroke = style.stroke.is_some() && style.width > 0;
                if style.stroke.is_none() && style.width > 0 {
                    out.probes |= probe("stroke_without_colour");
                }
                if style.fill.is_some() && !eff_stroke {
                    out.probes |= probe("fill_only");
                }
                if style.fill.is_none() && eff_stroke {
                    out.probes |= probe("stroke_only");
                }
                if ext != u32::MAX {
                    let inside = match style.align {
                        0 => style.width,
                        1 => (style.width + 1) / 2,
                        _ => 0,
                    };
                    if inside > 0 && inside * 2 >= ext {
                        out.probes |= probe("fill_area_collapsed");
                    }
                    if style.width > ext {
                        out.probes |= probe("stroke_wider_than_shape");
                    }
                    if ext <= 2 {
                        out.probes |= probe("thin_shape");
                    }
                    if ext == 0 {
                        out.probes |= probe("zero_size");
                    }
                }
                if let Shape::Polyline { translate, .. } = shape {
                    if *translate != [0, 0] {
                        out.probes |= probe("polyline_translated");
                    }
                    if style.width > 1 {
                        out.probes |= probe("polyline_thick");
                    }
                }
                facts.push(("stroke_color", if style.stroke.is_some() { "some" } else { "none" }.to_string()));
                facts.push(("fill_color", if style.fill.is_some() { "some" } else { "none" }.to_string()));
                facts.push(("stroke_width_positive", (style.width > 0).to_string()));
            }
            DrawableSpec::Text(t) => {
                match (t.text_color.is_some(), t.bg.is_some()) {
                    (true, true) => out.probes |= probe("text_mode_both"),
                    (true, false) => out.probes |= probe("text_mode_fg"),
                    (false, true) => out.probes |= probe("text_mode_bg"),
                    _ => {}
                }
                if t.underline != crate::workload::Deco::None || t.strike != crate::workload::Deco::None {
                    out.probes |= probe("text_decorated");
                }
                if t.font == 2 {
                    out.probes |= probe("text_custom_font_spacing");
                }
                if t.text.contains('\n') {
                    out.probes |= probe("text_multiline");
                }
            }
            DrawableSpec::Image(i) => {
                let bits = crate::model::StackModel::new(crate::model::R::empty(), sc.dev_kind, &sc.stack).top_kind().bits();
                if bits < 8 && i.w % (8 / bits) != 0 {
                    out.probes |= probe("image_width_not_multiple_of_ppb");
                }
                if i.subs.len() == 2 {
                    out.probes |= probe("sub_image_nested");
                }
            }
            _ => {}
        }

        if opts.describe {
            out.desc = Some(
                J::obj()
                    .set(
                        "device",
                        J::obj()
                            .set("bbox", J::ints(&sc.bbox[..]))
                            .set("colour", J::s(sc.dev_kind.name()))
                            .set("path_A", J::s("draw() on draw_iter-only device (real trait defaults)"))
                            .set(
                                "path_B",
                                J::s(format!(
                                    "draw() on device with native {} and discipline {}",
                                    crate::dev::caps_name(sc.caps_b),
                                    crate::dev::DISCIPLINES[sc.disc_b as usize].name()
                                )),
                            )
                            .set("path_C", J::s("draw_iter(styled.pixels()) on the path-A device (styled primitives without adapter stack only)")),
                    )
                    .set("stack_device_first", stack_json(&sc.stack))
                    .set("drawable", sc.drawable.to_json()),
            );
        }

        let dev_a = DevCfg { bbox: sc.bbox, caps: 0, disc: 0 };
        let dev_b = DevCfg {
            bbox: sc.bbox,
            caps: sc.caps_b,
            disc: sc.disc_b,
        };
        fn cfg<'a>(sc: &'a Scenario, dev: &'a DevCfg) -> RunCfg<'a> {
            RunCfg {
                dev,
                dev_kind: sc.dev_kind,
                stack: &sc.stack,
                fault: None,
                log_items: false,
                token_base: 0,
                record_memory: true,
            }
        }
        let a = run_drawable(&cfg(sc, &dev_a), &sc.drawable, Path::Draw);
        let b = run_drawable(&cfg(sc, &dev_b), &sc.drawable, Path::Draw);
        // The pixels() path is only compared on the bare device: through an adapter stack path C
        // would use the adapters' draw_iter while draw() uses their fill methods, so an adapter
        // defect (C03's business) would show up here as a pixels()-vs-draw() difference.
        let c = if sc.drawable.is_styled() && sc.stack.is_empty() {
            out.probes |= probe("pixels_path_compared");
            Some(run_drawable(&cfg(sc, &dev_a), &sc.drawable, Path::Pixels))
        } else {
            None
        };
        out.sub_evals = 2 + c.is_some() as u64;
        for r in [Some(&a), Some(&b), c.as_ref()].into_iter().flatten() {
            for (i, name) in ["colour_stream_next_then_for_each", "pixel_stream_for_each", "size_hint_compared_with_observed_end"].iter().enumerate() {
                if r.reach[i] > 0 {
                    out.probes |= probe(name);
                }
            }
        }
        for r in [Some(&a), Some(&b), c.as_ref()].into_iter().flatten() {
            out.calls += r.st.n_calls;
            out.items += r.st.n_items;
            trace.u64(r.st.trace.finish());
            trace.u64(r.st.memory_hash());
        }
        out.shape_hash = {
            let mut h = Hash64::new();
            h.u64(a.st.shape.finish());
            h.u64(b.st.shape.finish());
            h.finish()
        };
        if opts.describe {
            out.trace.push(format!(
                "device totals: A calls={} items={} | B calls={} items={} budget_exceeded={}",
                a.st.n_calls, a.st.n_items, b.st.n_calls, b.st.n_items, b.st.budget_exceeded
            ));
            out.trace.push("--- path A ---".into());
            out.trace.extend(a.st.describe_calls(25));
            out.trace.push("--- path B ---".into());
            out.trace.extend(b.st.describe_calls(25));
            if let Some(c) = &c {
                out.trace.push("--- path C ---".into());
                out.trace.extend(c.st.describe_calls(5));
            }
        }
        out.nontrivial = a.st.touched > 0 || b.st.touched > 0 || c.as_ref().map_or(false, |c| c.st.touched > 0);
        if !out.nontrivial {
            out.probes |= probe("nothing_drawn");
        }
        let clipped = [Some(&a), Some(&b), c.as_ref()].into_iter().flatten().any(|r| match r.st.received_extent {
            Some(e) => !r.st.rb.contains_rect(&e),
            None => false,
        });
        if clipped {
            out.probes |= probe("device_clips_drawing");
        } else if out.nontrivial {
            out.probes |= probe("device_contains_drawing");
        }

        // verdict
        let mk = |class: &'static str, path: &'static str, msg: String| {
            let mut v = Violation::new(class, format!("{} [{}]", msg, kind)).fact("path", path);
            for (k, val) in &facts {
                v = v.fact(k, val.clone());
            }
            v
        };
        let pan = |r: &DrawRun| r.result.as_ref().err().cloned();
        let all_runs: Vec<(&'static str, &DrawRun)> = {
            let mut v = vec![("A", &a), ("native", &b)];
            if let Some(c) = &c {
                v.push(("pixels", c));
            }
            v
        };
        if all_runs.iter().any(|(_, r)| r.inconclusive) {
            out.skipped = Some("unbounded_consumer_met_endless_stream");
            out.nontrivial = false;
            out.trace_hash = trace.finish();
            return out;
        }
        let panics: Vec<Option<String>> = all_runs.iter().map(|(_, r)| pan(r)).collect();
        if panics.iter().all(|p| p.is_some()) {
            out.skipped = Some("panicked_on_every_path");
            out.nontrivial = false;
            out.trace_hash = trace.finish();
            return out;
        }
        if let Some(i) = panics.iter().position(|p| p.is_some()) {
            out.violation = Some(mk(
                "panic_on_one_path",
                all_runs[i].0,
                format!("path {} panicked ({}) while another path completed", all_runs[i].0, panics[i].clone().unwrap()),
            ));
            trace.str("panic_on_one_path");
            out.trace_hash = trace.finish();
            return out;
        }
        for (name, r) in &all_runs {
            if let Ok(Err(e)) = &r.result {
                out.violation = Some(mk(
                    "unexpected_error",
                    name,
                    format!("path {} returned Err({:#x}) on a fault-free device", name, e.0),
                ));
                trace.str("unexpected_error");
                out.trace_hash = trace.finish();
                return out;
            }
        }
        if let Some((x, y, va, vb)) = first_diff(&a, &b) {
            out.violation = Some(mk(
                "native_vs_default",
                "native",
                format!(
                    "{} pixel(s) differ between the draw_iter-only device and the device with native {}; first: point ({},{}) default-path {:?} vs native-path {:?}",
                    count_diff(&a, &b),
                    crate::dev::caps_name(sc.caps_b),
                    x,
                    y,
                    va,
                    vb
                ),
            ));
            trace.str("native_vs_default");
        } else if let Some(c) = &c {
            if let Some((x, y, va, vc)) = first_diff(&a, c) {
                out.violation = Some(mk(
                    "pixels_vs_draw",
                    "pixels",
                    format!(
                        "{} pixel(s) differ between draw() and draw_iter(pixels()); first: point ({},{}) draw() {:?} vs pixels() {:?}",
                        count_diff(&a, c),
                        x,
                        y,
                        va,
                        vc
                    ),
                ));
                trace.str("pixels_vs_draw");
            }
        }
        if out.violation.is_none() {
            // a native target may size or stop its transfer by the stream's size_hint(): a stream
            // that contradicts its own hint draws a different image on such a target
            if let Some((name, r)) = all_runs.iter().find(|(_, r)| r.hint_breach.is_some()) {
                out.violation = Some(mk("size_hint_contradicted", name, format!("path {}: {}", name, r.hint_breach.clone().unwrap())));
                trace.str("size_hint_contradicted");
            }
        }
        out.trace_hash = trace.finish();
        out
    }
}

