//! C09 — raw images and sub-images reproduce their pixel data exactly.
//!
//! One seeded image (7 raw widths x 2 data orders, adversarial bytes) per run; an independent
//! decoder of the documented layout is the reference. The device matters: native vs default
//! fill_contiguous and the consumption discipline — only a draining consumer sees how long the
//! colour stream really is.

use crate::dev::{ColorKind, ImageVisitor, Method, SimColor, SimDisplay, SimError, C32, CAP_CONTIG};
use crate::json::J;
use crate::model::R;
use crate::prop::{Opts, Property, RunOut, Tier, Violation};
use crate::rng::{det_hash, Hash64, Src};
use crate::runner::guarded;
use crate::scen::{gen_caps_disc, gen_small_box, DevCfg};
use crate::workload::{bytes_per_row, gen_image, gen_knobs, DrawableSpec, ImageSpec, Path};
use embedded_graphics::image::{GetPixel, ImageDrawable};
use embedded_graphics::pixelcolor::{BinaryColor, Gray2, Gray4, Gray8, Rgb565, Rgb888};
use embedded_graphics::prelude::*;

pub struct C09;

pub const KINDS7: [ColorKind; 7] = [
    ColorKind::Binary,
    ColorKind::Gray2,
    ColorKind::Gray4,
    ColorKind::Gray8,
    ColorKind::Rgb565,
    ColorKind::Rgb888,
    ColorKind::C32,
];

/// C09's own menu: the seven raw widths and, appended, the user colour with a partial `From<Raw>`.
pub const KINDS8: [ColorKind; 8] = [
    ColorKind::Binary,
    ColorKind::Gray2,
    ColorKind::Gray4,
    ColorKind::Gray8,
    ColorKind::Rgb565,
    ColorKind::Rgb888,
    ColorKind::C32,
    ColorKind::User2,
];

/// For the user colour: every pixel INSIDE the image box must hold a raw value that is a colour
/// (0..=2); whatever lies in the row padding stays as generated (and often is the forbidden 3).
fn make_in_box_pixels_valid(data: &mut [u8], w: u32, h: u32, be: bool) {
    let bpr = bytes_per_row(w, 2);
    for y in 0..h as usize {
        for x in 0..w as usize {
            let idx = y * bpr + x / 4;
            if idx >= data.len() {
                return;
            }
            let shift = if be { 2 * (x % 4) } else { 6 - 2 * (x % 4) };
            if (data[idx] >> shift) & 3 == 3 {
                data[idx] &= !(1u8 << shift);
            }
        }
    }
}

#[derive(Clone, Debug, Hash)]
pub struct Scenario {
    pub kind: ColorKind,
    pub img: ImageSpec,
    /// buffer handed to the extra `ImageRaw::new` probe is this much longer (+) or shorter (-)
    pub len_delta: i32,
    pub dev: DevCfg,
    pub extremes: Vec<[i32; 2]>,
}

/// Independent decoder of the documented raw layout: rows padded to whole bytes;
/// LittleEndianMsb0 = little-endian bytes, sub-byte pixels most significant bits first;
/// BigEndianLsb0 = big-endian bytes, sub-byte pixels least significant bits first.
pub fn ref_pixel(data: &[u8], w: u32, bits: u32, be: bool, x: u32, y: u32) -> u32 {
    let stride = ((w as usize) * bits as usize + 7) / 8;
    let row = &data[y as usize * stride..(y as usize + 1) * stride];
    if bits < 8 {
        let ppb = 8 / bits;
        let byte = row[(x / ppb) as usize] as u32;
        let k = x % ppb;
        let shift = if be { bits * k } else { 8 - bits * (k + 1) };
        (byte >> shift) & ((1 << bits) - 1)
    } else {
        let n = (bits / 8) as usize;
        let b = &row[x as usize * n..x as usize * n + n];
        let mut v = 0u32;
        if be {
            for i in 0..n {
                v = (v << 8) | b[i] as u32;
            }
        } else {
            for i in (0..n).rev() {
                v = (v << 8) | b[i] as u32;
            }
        }
        v
    }
}

/// Region of the parent image (parent coordinates) a chain of sub_image areas selects.
/// Returns None if nothing is selected.
pub fn ref_sub_region(w: u32, h: u32, subs: &[[i32; 4]]) -> Option<R> {
    let mut cur = R::xywh(0, 0, w as i64, h as i64); // in image coordinates
    for a in subs {
        // `a` is in the coordinates of the current (sub-)image whose origin is cur.(x0,y0)
        let ra = R::xywh(a[0] as i64, a[1] as i64, a[2].max(0) as i64, a[3].max(0) as i64);
        let local = R::xywh(0, 0, cur.w(), cur.h());
        let s = ra.intersect(&local);
        if s.is_empty() {
            return None;
        }
        cur = s.shift(cur.x0, cur.y0);
    }
    if cur.is_empty() {
        None
    } else {
        Some(cur)
    }
}

/// Size reported by the (sub-)image at the end of the chain, as a point set it is empty when
/// nothing is selected; needed for `with_center`.
fn ref_sub_size(w: u32, h: u32, subs: &[[i32; 4]]) -> Option<(i64, i64)> {
    ref_sub_region(w, h, subs).map(|r| (r.w(), r.h()))
}

const PROBES: &[&str] = &[
    "width_not_multiple_of_ppb",
    "subimage_with_trailing_data",
    "subimage_not_at_left_edge",
    "subimage_initial_skip_gt_0",
    "nested_twice",
    "zero_area",
    "area_partly_outside",
    "with_center",
    "wrong_length_short",
    "wrong_length_long",
    "device_clips_image",
    "device_contains_image",
    "discipline_drain",
    "discipline_zip_colours_first",
    "native_fill_contiguous",
    "default_fill_contiguous",
    "image_zero_width",
    "image_zero_height",
    "full_image_draw",
    "pixel_probed_outside",
    "big_endian",
    "little_endian",
    "colour_stream_next_then_for_each",
    "pixel_stream_for_each",
    "size_hint_compared_with_observed_end",
];

const FAULTS: &[&str] = &["wrong_length_buffer", "stream_drained_past_nominal_end", "adversarial_bytes"];

fn probe(name: &str) -> u64 {
    1u64 << PROBES.iter().position(|p| *p == name).expect("probe name")
}

struct PixelProbe<'a> {
    sc: &'a Scenario,
    bad: Option<String>,
    probed_outside: bool,
}

impl<C: SimColor> ImageVisitor<C> for PixelProbe<'_> {
    type Out = ();
    fn visit<I: ImageDrawable<Color = C> + GetPixel<Color = C>>(&mut self, img: &I) {
        let i = &self.sc.img;
        let bits = C::KIND.bits();
        let (w, h) = (i.w as i32, i.h as i32);
        let check = |x: i32, y: i32, bad: &mut Option<String>| {
            if bad.is_some() {
                return;
            }
            let got = img.pixel(Point::new(x, y)).map(|c| c.to_u32());
            let want = if x >= 0 && y >= 0 && x < w && y < h {
                Some(ref_pixel(&i.data, i.w, bits, i.be, x as u32, y as u32))
            } else {
                None
            };
            if got != want {
                *bad = Some(format!("pixel(({},{})) returned {:?}, reference decoder says {:?}", x, y, got, want));
            }
        };
        for y in -2..h + 2 {
            for x in -2..w + 2 {
                check(x, y, &mut self.bad);
            }
        }
        for e in &self.sc.extremes {
            check(e[0], e[1], &mut self.bad);
            self.probed_outside = true;
        }
        let sz = img.size();
        if self.bad.is_none() && (sz.width != i.w || sz.height != i.h) {
            self.bad = Some(format!("size() is {}x{}, image was built {}x{}", sz.width, sz.height, i.w, i.h));
        }
    }
}

/// `size()` of the (sub-)image at the end of the chain: the size of the selected region, or any
/// zero-sized size when nothing is selected.
struct SizeProbe<'a> {
    sc: &'a Scenario,
    bad: Option<String>,
}

impl<C: SimColor> ImageVisitor<C> for SizeProbe<'_> {
    type Out = ();
    fn visit<I: ImageDrawable<Color = C> + GetPixel<Color = C>>(&mut self, img: &I) {
        use embedded_graphics::image::ImageDrawableExt;
        let i = &self.sc.img;
        let r4 = |a: &[i32; 4]| crate::erased::rect_of(a);
        let got = match i.subs.len() {
            0 => img.size(),
            1 => img.sub_image(&r4(&i.subs[0])).size(),
            _ => {
                let s = img.sub_image(&r4(&i.subs[0]));
                let s2 = s.sub_image(&r4(&i.subs[1]));
                s2.size()
            }
        };
        let want = ref_sub_region(i.w, i.h, &i.subs);
        let ok = match want {
            Some(r) => got.width as i64 == r.w() && got.height as i64 == r.h(),
            None => got.width == 0 || got.height == 0,
        };
        if !ok {
            self.bad = Some(format!(
                "size() of the selected (sub-)image is {}x{}, the selected region is {:?}",
                got.width,
                got.height,
                want.map(|r| [r.w(), r.h()])
            ));
        }
    }
}

struct NewProbe;
impl<C: SimColor> ImageVisitor<C> for NewProbe {
    type Out = ();
    fn visit<I: ImageDrawable<Color = C> + GetPixel<Color = C>>(&mut self, _img: &I) {}
}

fn run_typed<C: SimColor>(sc: &Scenario, opts: &Opts) -> RunOut {
    let mut out = RunOut::default();
    out.scen_hash = det_hash(sc);
    let mut trace = Hash64::new();
    trace.u64(out.scen_hash);
    let i = &sc.img;
    let bits = sc.kind.bits();
    let kind_idx = KINDS8.iter().position(|k| *k == sc.kind).unwrap() as u32;
    out.lattice = (kind_idx * 2 + i.be as u32) * 8 * crate::dev::N_DISC + sc.dev.lattice();
    out.faults_configured[2] += 1;
    out.faults_fired[2] += 1;
    if i.be {
        out.probes |= probe("big_endian");
    } else {
        out.probes |= probe("little_endian");
    }
    if bits < 8 && i.w % (8 / bits) != 0 {
        out.probes |= probe("width_not_multiple_of_ppb");
    }
    if i.w == 0 {
        out.probes |= probe("image_zero_width");
    }
    if i.h == 0 {
        out.probes |= probe("image_zero_height");
    }
    if i.center {
        out.probes |= probe("with_center");
    }
    if i.subs.len() == 2 {
        out.probes |= probe("nested_twice");
    }
    if i.subs.is_empty() {
        out.probes |= probe("full_image_draw");
    }
    if sc.dev.disc == 3 {
        out.probes |= probe("discipline_drain");
    }
    if sc.dev.disc == 1 {
        out.probes |= probe("discipline_zip_colours_first");
    }
    if sc.dev.caps & CAP_CONTIG != 0 {
        out.probes |= probe("native_fill_contiguous");
    } else {
        out.probes |= probe("default_fill_contiguous");
    }
    let region = ref_sub_region(i.w, i.h, &i.subs);
    if !i.subs.is_empty() {
        match &region {
            None => out.probes |= probe("zero_area"),
            Some(r) => {
                if r.y1 < i.h as i64 {
                    out.probes |= probe("subimage_with_trailing_data");
                }
                if r.x0 > 0 || r.x1 < i.w as i64 {
                    out.probes |= probe("subimage_not_at_left_edge");
                }
                if r.x0 > 0 || r.y0 > 0 {
                    out.probes |= probe("subimage_initial_skip_gt_0");
                }
            }
        }
        let a = i.subs[0];
        let ra = R::xywh(a[0] as i64, a[1] as i64, a[2].max(0) as i64, a[3].max(0) as i64);
        let ib = R::xywh(0, 0, i.w as i64, i.h as i64);
        if !ra.is_empty() && !ib.contains_rect(&ra) && !ra.intersect(&ib).is_empty() {
            out.probes |= probe("area_partly_outside");
        }
    }

    if opts.describe {
        out.desc = Some(
            J::obj()
                .set("colour", J::s(sc.kind.name()))
                .set("image", DrawableSpec::Image(i.clone()).to_json())
                .set("new_probe_len_delta", J::Int(sc.len_delta as i64))
                .set("device", sc.dev.to_json())
                .set("extreme_points", J::Arr(sc.extremes.iter().map(|e| J::ints(&e[..])).collect())),
        );
    }

    let mk = |class: &'static str, msg: String| {
        Violation::new(class, format!("{} [{} {} {}x{}]", msg, sc.kind.name(), if i.be { "BigEndianLsb0" } else { "LittleEndianMsb0" }, i.w, i.h))
            .fact("colour", sc.kind.name())
            .fact("order", if i.be { "be" } else { "le" })
            .fact("sub_image", (!i.subs.is_empty()).to_string())
    };

    // (e) ImageRaw::new accepts exactly buffers of the required length
    let expected_len = bytes_per_row(i.w, bits) * i.h as usize;
    {
        let len = (expected_len as i64 + sc.len_delta as i64).max(0) as usize;
        let mut buf = i.data.clone();
        buf.resize(len, 0xA5);
        let accepted = guarded(|| C::with_image(&buf, i.w, i.h, i.be, &mut NewProbe).is_some());
        out.sub_evals += 1;
        if len != expected_len {
            out.faults_configured[0] += 1;
            out.faults_fired[0] += 1;
            out.probes |= probe(if len < expected_len { "wrong_length_short" } else { "wrong_length_long" });
        }
        match accepted {
            Err(p) => {
                out.violation = Some(mk("panic", format!("ImageRaw::new panicked: {}", p)));
            }
            Ok(acc) => {
                if acc != (len == expected_len) {
                    out.violation = Some(mk(
                        "new_length_check",
                        format!(
                            "ImageRaw::new {} a buffer of {} bytes; the required length is {}",
                            if acc { "accepted" } else { "rejected" },
                            len,
                            expected_len
                        ),
                    ));
                }
            }
        }
        trace.u64(len as u64);
        if out.violation.is_none() {
            if let Err(e) = C::new_const_agrees(&buf, i.w, i.h, i.be) {
                out.violation = Some(mk("new_length_check", format!("{} (buffer of {} bytes, required length {})", e, len, expected_len)));
            }
        }
    }

    // (a) pixel()
    if out.violation.is_none() {
        let mut pp = PixelProbe {
            sc,
            bad: None,
            probed_outside: false,
        };
        let r = guarded(|| C::with_image(&i.data, i.w, i.h, i.be, &mut pp));
        out.sub_evals += 1;
        match r {
            Err(p) => out.violation = Some(mk("panic", format!("pixel() panicked: {}", p))),
            Ok(None) => out.violation = Some(mk("new_length_check", "ImageRaw::new rejected a buffer of exactly the required length".into())),
            Ok(Some(())) => {
                if let Some(b) = pp.bad {
                    out.violation = Some(mk("pixel_mismatch", b));
                }
            }
        }
        if pp.probed_outside {
            out.probes |= probe("pixel_probed_outside");
        }
    }

    // (d') size of the selected (sub-)image
    if out.violation.is_none() {
        let mut sp = SizeProbe { sc, bad: None };
        match guarded(|| C::with_image(&i.data, i.w, i.h, i.be, &mut sp)) {
            Err(p) => out.violation = Some(mk("panic", format!("sub_image / size panicked: {}", p))),
            Ok(_) => {
                if let Some(b) = sp.bad {
                    out.violation = Some(mk("size_mismatch", b));
                }
            }
        }
    }

    // (b)(c)(d) drawing
    let mut dev = SimDisplay::<C>::new(sc.dev.rect(), sc.dev.caps, sc.dev.disc());
    // image colour streams are finite by this property ("exactly width x height colours"), so the
    // draining consumer may drain without bound and by internal iteration (dev.rs)
    dev.st.unbounded_ok = true;
    crate::dev::take_hint_breach();
    crate::dev::take_unbounded_abort();
    crate::dev::take_reach();
    if out.violation.is_none() {
        let spec = DrawableSpec::Image(i.clone());
        let r = guarded(|| crate::workload::draw_spec::<C, _>(&spec, Path::Draw, &mut dev));
        out.sub_evals += 1;
        let endless = crate::dev::take_unbounded_abort();
        for (i, n) in crate::dev::take_reach().iter().enumerate() {
            if *n > 0 {
                out.probes |= probe(["colour_stream_next_then_for_each", "pixel_stream_for_each", "size_hint_compared_with_observed_end"][i]);
            }
        }
        match r {
            Err(_) if endless => {
                out.violation = Some(
                    mk("stream_surplus", format!("the colour stream handed to fill_contiguous did not end within area + {} colours (consumer: DrainBounded, unbounded)", crate::dev::UNBOUNDED_LIMIT))
                        .fact("surplus_is_one_row", "false")
                        .fact("surplus_le_one_row", "false"),
                )
            }
            Err(p) => out.violation = Some(mk("panic", format!("Image::draw panicked: {}", p))),
            Ok(Err(e)) => out.violation = Some(mk("unexpected_error", format!("Image::draw returned Err({:#x}) on a fault-free device", e.0))),
            Ok(Ok(_)) => {}
        }
    }
    if out.violation.is_none() {
        // expected pixel map
        let region = region;
        let (sw, sh) = match ref_sub_size(i.w, i.h, &i.subs) {
            Some(s) => s,
            None => (0, 0),
        };
        // with_center: top_left = center - floor((size - 1) / 2), size 0 counts as offset 0.
        // (for an empty selection the library keeps the zero-sized area's own size; nothing is drawn then)
        let (ox, oy) = if i.center {
            (i.at[0] as i64 - (sw.max(1) - 1) / 2, i.at[1] as i64 - (sh.max(1) - 1) / 2)
        } else {
            (i.at[0] as i64, i.at[1] as i64)
        };
        let dev_r = sc.dev.r();
        let mut expected: Vec<Option<u32>> = vec![None; dev_r.area() as usize];
        let mut any = false;
        let mut clipped = false;
        if let Some(r) = &region {
            for y in 0..r.h() {
                for x in 0..r.w() {
                    let v = ref_pixel(&i.data, i.w, bits, i.be, (r.x0 + x) as u32, (r.y0 + y) as u32);
                    let (tx, ty) = (ox + x, oy + y);
                    if dev_r.contains(tx, ty) {
                        expected[((ty - dev_r.y0) * dev_r.w() + (tx - dev_r.x0)) as usize] = Some(v);
                        any = true;
                    } else {
                        clipped = true;
                    }
                }
            }
        }
        out.nontrivial = any;
        if clipped {
            out.probes |= probe("device_clips_image");
        } else if any {
            out.probes |= probe("device_contains_image");
        }
        for (idx, (want, got)) in expected.iter().zip(dev.st.memory.iter()).enumerate() {
            if want != got {
                let x = dev_r.x0 + idx as i64 % dev_r.w();
                let y = dev_r.y0 + idx as i64 / dev_r.w();
                out.violation = Some(mk(
                    "draw_mismatch",
                    format!(
                        "after drawing, device point ({},{}) holds {:?}; expected {:?} (image placed at offset ({},{}), selected region {:?})",
                        x,
                        y,
                        got,
                        want,
                        ox,
                        oy,
                        region.map(|r| r.to_arr())
                    ),
                ));
                break;
            }
        }
        // (c) stream length == area points for every fill_contiguous reaching the device
        if out.violation.is_none() {
            for (ci, c) in dev.st.calls.iter().enumerate() {
                if c.method != Method::FillContiguous {
                    continue;
                }
                let a = c.area.unwrap_or([0, 0, 0, 0]);
                let n = (a[2].max(0) as u64) * (a[3].max(0) as u64);
                if sc.dev.disc == 3 && c.executed_by == Method::FillContiguous {
                    out.faults_configured[1] += 1;
                    out.faults_fired[1] += 1;
                }
                if c.surplus > 0 {
                    let w = a[2].max(0) as u64;
                    out.violation = Some(
                        mk(
                            "stream_surplus",
                            format!(
                                "fill_contiguous call #{} has area {}x{} = {} points but its colour stream yielded at least {} more colour(s) (consumer: {}{})",
                                ci + 1,
                                a[2],
                                a[3],
                                n,
                                c.surplus,
                                sc.dev.disc().name(),
                                if dev.st.resumed_after_end { "; the stream yielded again AFTER it had returned None" } else { "" }
                            ),
                        )
                        .fact("surplus_is_one_row", (c.surplus == w && w > 0).to_string())
                        .fact("surplus_le_one_row", (c.surplus <= w).to_string()),
                    );
                    break;
                }
                // (a clipping consumer legitimately pulls fewer colours than the area has points)
                if c.pulled < n && c.executed_by == Method::FillContiguous && sc.dev.disc != 4 {
                    out.violation = Some(mk(
                        "stream_shortfall",
                        format!(
                            "fill_contiguous call #{} has area {}x{} = {} points but its colour stream ended after {} colours",
                            ci + 1,
                            a[2],
                            a[3],
                            n,
                            c.pulled
                        ),
                    ));
                    break;
                }
            }
        }
        // (e) the stream honours its own size_hint(): a target may size or stop its transfer by it
        if out.violation.is_none() {
            if let Some(b) = crate::dev::take_hint_breach() {
                out.violation = Some(mk("size_hint_contradicted", b));
            }
        }
    }
    if opts.describe {
        out.trace = dev.st.describe_calls(20);
    }
    out.calls = dev.st.n_calls;
    out.items = dev.st.n_items;
    out.shape_hash = dev.st.shape.finish();
    trace.u64(dev.st.trace.finish());
    trace.u64(dev.st.memory_hash());
    if let Some(v) = &out.violation {
        trace.str(v.class);
    }
    out.trace_hash = trace.finish();
    let _: Option<SimError> = None;
    out
}

impl Property for C09 {
    type Scenario = Scenario;

    fn id(&self) -> &'static str {
        "C09"
    }
    fn level(&self) -> &'static str {
        "exploration"
    }
    fn technique(&self) -> &'static str {
        "deterministic simulation: seeded raw images drawn onto simulated devices that differ in native/default fill_contiguous and stream-consumption discipline (incl. a draining consumer), judged against an independent decoder of the documented layout"
    }
    fn runs(&self, tier: Tier) -> u64 {
        match tier {
            Tier::Quick => 2_000_000,
            Tier::Thorough => 60_000_000,
        }
    }
    fn probe_names(&self) -> &'static [&'static str] {
        PROBES
    }
    fn fault_names(&self) -> &'static [&'static str] {
        FAULTS
    }
    fn probes_zero_by_construction(&self) -> &'static [(&'static str, &'static str)] {
        &[(
            "size_hint_compared_with_observed_end",
            "the image colour streams of the unchanged tree keep the default size_hint() (0, None), which announces nothing that could be compared; the probe fires as soon as a change gives them a hint (seeded changes c01-agent5-1, c09-agent7-2)",
        )]
    }
    fn lattice_size(&self) -> u32 {
        16 * 8 * crate::dev::N_DISC
    }
    fn lattice_desc(&self) -> &'static str {
        "colour kind (7 raw widths + a user colour with a partial From<Raw>) x data order (2) x capability set (8) x consumption discipline (5)"
    }
    fn sub_eval_name(&self) -> &'static str {
        "operations_checked"
    }
    fn rule(&self) -> &'static str {
        "one seeded scenario = ImageRaw of one of 7 raw widths x 2 data orders, size 0..=20 x 0..=12 biased to widths that are not a multiple of the pixels per byte (1 run in 64: a big image with rows longer than 255 pixels/bytes or more than 65535 pixels), seeded bytes (random / all ones / row-tagged); operations: ImageRaw::new (and new_const) with exact and wrong lengths, pixel(p) on the box plus margin plus extreme points, Image::new / with_center draw of the image or of a sub-image chain (inside / overlapping / outside / zero-sized, nested twice) onto a device with seeded box, capability set and discipline; oracle: independent decoder, exact pixel map, stream length == area for every fill_contiguous (consumers: zip either way, take, drain, skip hidden colours with nth, k x next then unbounded for_each, polling again after the end), size_hint() read at the start and again mid-stream agrees with the stream. distinct = 64-bit hash of the decoded scenario; non-trivial = at least one device pixel expected to be set"
    }
    fn assumptions(&self) -> Vec<&'static str> {
        vec![
            "the reference decoder encodes my reading of the documented layout (rows padded to whole bytes; LittleEndianMsb0: little-endian bytes, MSB-first sub-byte pixels; BigEndianLsb0: big-endian bytes, LSB-first sub-byte pixels)",
            "Rectangle::with_center rounding: top_left = center - floor((size-1)/2)",
            "SimDisplay models conforming drivers; surplus colours can only be observed by ZipColoursFirst (one) and DrainBounded (up to 160) consumers",
            "image sizes <= 20x12 in most runs; 1 in 64 runs uses a big image (255..300 pixels wide or tall, or 260x253 = 65780 pixels); offsets within +-64",
        ]
    }

    fn gen(&self, src: &mut Src) -> Scenario {
        let kind = KINDS8[src.draw(8) as usize];
        let knobs = {
            let mut k = gen_knobs(src, kind.mask(), false);
            k.scale = [8, 24][src.draw(2) as usize];
            k
        };
        let with_subs = src.draw(3) != 0;
        let mut img = gen_image(src, &knobs, kind.bits(), with_subs);
        if kind == ColorKind::User2 {
            let (w, h, be) = (img.w, img.h, img.be);
            make_in_box_pixels_valid(&mut img.data, w, h, be);
        }
        let stride = bytes_per_row(img.w, kind.bits()) as i32;
        let len_delta = match src.draw(6) {
            0 | 1 => 0,
            2 => -1,
            3 => 1,
            4 => -stride.max(1),
            _ => stride.max(1),
        };
        let (caps, disc) = gen_caps_disc(src);
        let large = src.draw(5) < 3;
        let bbox = if img.w > 60 || img.h > 50 {
            // a big image: a box around both possible placements (top-left / centre at `at`)
            let (w, h) = (img.w as i32, img.h as i32);
            if large {
                [img.at[0] - w / 2 - 8, img.at[1] - h / 2 - 8, w + w / 2 + 16, h + h / 2 + 16]
            } else {
                [img.at[0] - 3, img.at[1] - 3, w + 1, h.min(40)]
            }
        } else if large {
            [-40, -40, 110, 100]
        } else {
            // a small box around the place the image is drawn at
            let b = gen_small_box(src);
            [img.at[0] + b[0].clamp(-6, 6), img.at[1] + b[1].clamp(-6, 6), b[2], b[3]]
        };
        let n_ext = src.draw(3);
        let mut extremes = Vec::new();
        for _ in 0..n_ext {
            let e = |src: &mut Src| match src.draw(6) {
                0 => i32::MIN,
                1 => i32::MAX,
                2 => -1,
                3 => 65536 + src.draw(4) as i32,
                4 => -65536 + src.draw(4) as i32,
                _ => src.draw(24) as i32,
            };
            extremes.push([e(src), e(src)]);
        }
        Scenario {
            kind,
            img,
            len_delta,
            dev: DevCfg { bbox, caps, disc },
            extremes,
        }
    }

    fn exec(&self, sc: &Scenario, opts: &Opts) -> RunOut {
        match sc.kind {
            ColorKind::Binary => run_typed::<BinaryColor>(sc, opts),
            ColorKind::Gray2 => run_typed::<Gray2>(sc, opts),
            ColorKind::Gray4 => run_typed::<Gray4>(sc, opts),
            ColorKind::Gray8 => run_typed::<Gray8>(sc, opts),
            ColorKind::Rgb565 => run_typed::<Rgb565>(sc, opts),
            ColorKind::Rgb888 => run_typed::<Rgb888>(sc, opts),
            ColorKind::C32 => run_typed::<C32>(sc, opts),
            ColorKind::User2 => run_typed::<crate::dev::Cu2>(sc, opts),
            k => unreachable!("{} is only used by C20", k.name()),
        }
    }
}
