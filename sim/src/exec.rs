//! Running one drawable through an adapter stack onto a simulated device (shared by C01, C04).

use crate::dev::{ColorKind, DevState, Fault, SimColor, SimDisplay, SimError};
use crate::erased::{with_stack, Ad, DynTarget, Visitor};
use crate::runner::guarded;
use crate::scen::DevCfg;
use crate::workload::{draw_spec, DrawableSpec, Path};
use embedded_graphics::pixelcolor::{BinaryColor, Gray2, Gray4, Gray8, Rgb565, Rgb888};
use embedded_graphics::primitives::Rectangle;

pub struct RunCfg<'a> {
    pub dev: &'a DevCfg,
    pub dev_kind: ColorKind,
    pub stack: &'a [Ad],
    pub fault: Option<Fault>,
    pub log_items: bool,
    pub token_base: u64,
    pub record_memory: bool,
}

pub type DrawResult = Result<Option<[i32; 2]>, SimError>;

pub struct DrawRun {
    pub st: DevState,
    /// Err(String): the library panicked
    pub result: Result<DrawResult, String>,
    pub boxes: Vec<Rectangle>,
    /// a stream's size_hint() contradicted what the stream yielded (dev::note_hint)
    pub hint_breach: Option<String>,
    /// an unbounded internal-iteration consumer met a stream that did not end: nothing can be
    /// concluded from this run (such a consumer is only legal for finite streams)
    pub inconclusive: bool,
    /// dev::take_reach()
    pub reach: [u32; 3],
}

struct DrawVisitor<'s> {
    spec: &'s DrawableSpec,
    path: Path,
    boxes: Vec<Rectangle>,
}

impl Visitor for DrawVisitor<'_> {
    type Out = DrawResult;
    fn visit<C: SimColor>(&mut self, top: &mut DynTarget<'_, C>, boxes: &[Rectangle]) -> DrawResult {
        self.boxes = boxes.to_vec();
        draw_spec::<C, _>(self.spec, self.path, top)
    }
}

fn run_typed<C: SimColor>(cfg: &RunCfg, spec: &DrawableSpec, path: Path) -> DrawRun {
    let mut dev = SimDisplay::<C>::with_memory(cfg.dev.rect(), cfg.dev.caps, cfg.dev.disc(), cfg.record_memory);
    dev.st.fault = cfg.fault;
    dev.st.log_items = cfg.log_items;
    dev.st.token_base = cfg.token_base;
    let mut v = DrawVisitor {
        spec,
        path,
        boxes: Vec::new(),
    };
    // devices that walk pixel streams by internal iteration (see dev.rs) make the shim do the same,
    // unless a mid-stream fault is planned (that needs lazy pulling)
    let fold = matches!(cfg.dev.disc(), crate::dev::Discipline::DrainBounded | crate::dev::Discipline::SkipHidden)
        && !matches!(cfg.fault, Some(f) if f.at_item.is_some());
    crate::erased::set_fold_mode(fold);
    crate::dev::take_hint_breach();
    crate::dev::take_unbounded_abort();
    crate::dev::take_reach();
    let result = guarded(|| {
        let mut boxes = Vec::new();
        let mut top = DynTarget::new(&mut dev);
        with_stack(&mut top, cfg.stack, &mut boxes, &mut v)
    });
    crate::erased::set_fold_mode(false);
    DrawRun {
        st: dev.into_state(),
        result,
        boxes: v.boxes,
        hint_breach: crate::dev::take_hint_breach(),
        inconclusive: crate::dev::take_unbounded_abort(),
        reach: crate::dev::take_reach(),
    }
}

pub fn run_drawable(cfg: &RunCfg, spec: &DrawableSpec, path: Path) -> DrawRun {
    match cfg.dev_kind {
        ColorKind::Binary => run_typed::<BinaryColor>(cfg, spec, path),
        ColorKind::Rgb565 => run_typed::<Rgb565>(cfg, spec, path),
        ColorKind::Rgb888 => run_typed::<Rgb888>(cfg, spec, path),
        ColorKind::Gray2 => run_typed::<Gray2>(cfg, spec, path),
        ColorKind::Gray4 => run_typed::<Gray4>(cfg, spec, path),
        ColorKind::Gray8 => run_typed::<Gray8>(cfg, spec, path),
        ColorKind::C32 => run_typed::<crate::dev::C32>(cfg, spec, path),
        k => unreachable!("{} is only used by C20", k.name()),
    }
}

pub const CHAIN_KINDS: [ColorKind; 3] = [ColorKind::Binary, ColorKind::Rgb565, ColorKind::Rgb888];

/// Device colour for drawable workloads: mostly the three kinds of the colour-conversion chain,
/// sometimes one of the other four (2, 4, 8 and 32 bits per pixel).
pub fn gen_dev_kind(src: &mut crate::rng::Src) -> ColorKind {
    match src.draw(8) {
        0 | 1 => ColorKind::Binary,
        2 | 3 => ColorKind::Rgb565,
        4 | 5 => ColorKind::Rgb888,
        6 => [ColorKind::Gray2, ColorKind::Gray4][src.draw(2) as usize],
        _ => [ColorKind::Gray8, ColorKind::C32][src.draw(2) as usize],
    }
}
