//! Reference semantics, written without any code from /repo: rectangles as half-open i64
//! intervals, the meaning of the four target operations as ordered write lists, and the four
//! adapters as functions on write lists and boxes.

use embedded_graphics::primitives::Rectangle;

#[derive(Clone, Copy, Debug, PartialEq, Eq)]
pub struct R {
    pub x0: i64,
    pub y0: i64,
    pub x1: i64,
    pub y1: i64,
}

impl R {
    pub fn new(x0: i64, y0: i64, x1: i64, y1: i64) -> R {
        R { x0, y0, x1, y1 }
    }
    pub fn xywh(x: i64, y: i64, w: i64, h: i64) -> R {
        R::new(x, y, x + w, y + h)
    }
    pub fn from_rect(r: &Rectangle) -> R {
        R::xywh(
            r.top_left.x as i64,
            r.top_left.y as i64,
            r.size.width as i64,
            r.size.height as i64,
        )
    }
    pub fn empty() -> R {
        R::new(0, 0, 0, 0)
    }
    pub fn w(&self) -> i64 {
        self.x1 - self.x0
    }
    pub fn h(&self) -> i64 {
        self.y1 - self.y0
    }
    pub fn is_empty(&self) -> bool {
        self.x1 <= self.x0 || self.y1 <= self.y0
    }
    pub fn area(&self) -> i64 {
        if self.is_empty() {
            0
        } else {
            self.w() * self.h()
        }
    }
    pub fn contains(&self, x: i64, y: i64) -> bool {
        x >= self.x0 && x < self.x1 && y >= self.y0 && y < self.y1
    }
    pub fn contains_rect(&self, o: &R) -> bool {
        o.is_empty() || (o.x0 >= self.x0 && o.x1 <= self.x1 && o.y0 >= self.y0 && o.y1 <= self.y1)
    }
    pub fn intersect(&self, o: &R) -> R {
        if self.is_empty() || o.is_empty() {
            return R::empty();
        }
        let r = R::new(
            self.x0.max(o.x0),
            self.y0.max(o.y0),
            self.x1.min(o.x1),
            self.y1.min(o.y1),
        );
        if r.is_empty() {
            R::empty()
        } else {
            r
        }
    }
    pub fn shift(&self, dx: i64, dy: i64) -> R {
        R::new(self.x0 + dx, self.y0 + dy, self.x1 + dx, self.y1 + dy)
    }
    pub fn grow(&mut self, x: i64, y: i64) {
        if x < self.x0 {
            self.x0 = x;
        }
        if y < self.y0 {
            self.y0 = y;
        }
        if x + 1 > self.x1 {
            self.x1 = x + 1;
        }
        if y + 1 > self.y1 {
            self.y1 = y + 1;
        }
    }
    /// Equality as point sets (all empty rectangles are equal).
    pub fn same_points(&self, o: &R) -> bool {
        (self.is_empty() && o.is_empty()) || self == o
    }
    pub fn to_arr(&self) -> [i64; 4] {
        [self.x0, self.y0, self.w(), self.h()]
    }
    pub fn to_rect(&self) -> Rectangle {
        use embedded_graphics::prelude::*;
        Rectangle::new(
            Point::new(self.x0 as i32, self.y0 as i32),
            Size::new(self.w().max(0) as u32, self.h().max(0) as u32),
        )
    }
}

/// One write: (x, y, colour) in some layer's coordinate system / colour space.
pub type W = (i64, i64, u32);

// ---------------------------------------------------------------- adapter stack model

use crate::dev::{convert_down_to, down_kind, ColorKind};
use crate::erased::Ad;

#[derive(Clone, Debug)]
pub struct LayerModel {
    /// bounding box this layer reports, in its own coordinates
    pub bbox: R,
    /// own point p lands on parent point p + off
    pub off: (i64, i64),
    /// writes outside this region (own coordinates) never reach the parent
    pub clip: Option<R>,
    /// colours are converted into the parent's colour kind
    pub conv_to: Option<ColorKind>,
    /// colour kind of this layer
    pub kind: ColorKind,
    /// a cropped layer over an empty intersection (origin undocumented)
    pub crop_over_empty: bool,
}

#[derive(Clone, Debug)]
pub struct StackModel {
    pub dev_box: R,
    pub dev_kind: ColorKind,
    /// device-first order, same as the `Ad` list
    pub layers: Vec<LayerModel>,
}

impl StackModel {
    pub fn new(dev_box: R, dev_kind: ColorKind, stack: &[Ad]) -> StackModel {
        let mut layers = Vec::new();
        let mut pbox = dev_box;
        let mut pkind = dev_kind;
        for ad in stack {
            let l = match ad {
                Ad::Translated(o) => LayerModel {
                    bbox: pbox.shift(-(o[0] as i64), -(o[1] as i64)),
                    off: (o[0] as i64, o[1] as i64),
                    clip: None,
                    conv_to: None,
                    kind: pkind,
                    crop_over_empty: false,
                },
                Ad::Clipped(a) => {
                    let clip = R::xywh(a[0] as i64, a[1] as i64, a[2] as i64, a[3] as i64).intersect(&pbox);
                    LayerModel {
                        bbox: clip,
                        off: (0, 0),
                        clip: Some(clip),
                        conv_to: None,
                        kind: pkind,
                        crop_over_empty: false,
                    }
                }
                Ad::Cropped(a) => {
                    let c = R::xywh(a[0] as i64, a[1] as i64, a[2] as i64, a[3] as i64).intersect(&pbox);
                    LayerModel {
                        bbox: R::xywh(0, 0, c.w(), c.h()),
                        off: (c.x0, c.y0),
                        clip: None,
                        conv_to: None,
                        kind: pkind,
                        crop_over_empty: c.is_empty(),
                    }
                }
                Ad::ColorConverted => LayerModel {
                    bbox: pbox,
                    off: (0, 0),
                    clip: None,
                    conv_to: Some(pkind),
                    kind: down_kind(pkind),
                    crop_over_empty: false,
                },
            };
            pbox = l.bbox;
            pkind = l.kind;
            layers.push(l);
        }
        StackModel {
            dev_box,
            dev_kind,
            layers,
        }
    }

    pub fn has_crop_over_empty(&self) -> bool {
        self.layers.iter().any(|l| l.crop_over_empty)
    }

    /// bounding box reported at level `n` (0 = device, k = after k adapters)
    pub fn box_at(&self, level: usize) -> R {
        if level == 0 {
            self.dev_box
        } else {
            self.layers[level - 1].bbox
        }
    }
    pub fn kind_at(&self, level: usize) -> ColorKind {
        if level == 0 {
            self.dev_kind
        } else {
            self.layers[level - 1].kind
        }
    }
    pub fn top_box(&self) -> R {
        self.box_at(self.layers.len())
    }
    pub fn top_kind(&self) -> ColorKind {
        self.kind_at(self.layers.len())
    }

    /// Push writes issued at `level` down to device coordinates / device colours.
    /// Returns the writes that reach the device (before the device's own clipping).
    pub fn push_down(&self, level: usize, mut ws: Vec<W>) -> Vec<W> {
        for l in self.layers[..level].iter().rev() {
            if let Some(clip) = &l.clip {
                ws.retain(|(x, y, _)| clip.contains(*x, *y));
            }
            if l.off != (0, 0) {
                for w in ws.iter_mut() {
                    w.0 += l.off.0;
                    w.1 += l.off.1;
                }
            }
            if let Some(pk) = l.conv_to {
                for w in ws.iter_mut() {
                    w.2 = convert_down_to(pk, w.2);
                }
            }
        }
        ws
    }

    /// The region (device coordinates) outside which no write issued at `level` may reach the
    /// device, if any clipped layer lies below `level`.
    pub fn guard(&self, level: usize) -> Option<R> {
        // walk from the device upwards, tracking the offset of each layer's coordinates
        // relative to device coordinates: own p -> device p + acc
        let mut acc = (0i64, 0i64);
        let mut guard: Option<R> = None;
        for l in self.layers[..level].iter() {
            // own coordinates of this layer -> parent: + off ; parent -> device: + acc(parent)
            let acc_own = (acc.0 + l.off.0, acc.1 + l.off.1);
            if let Some(clip) = &l.clip {
                let g = clip.shift(acc_own.0, acc_own.1);
                guard = Some(match guard {
                    None => g,
                    Some(prev) => prev.intersect(&g),
                });
            }
            acc = acc_own;
        }
        guard
    }
}

/// A primitive target operation, issued at some level of a stack.
#[derive(Clone, Debug, PartialEq, Eq)]
pub enum TOp {
    DrawIter(Vec<(i32, i32, u32)>),
    /// `colours` then, if `repeat` is set, that colour for ever
    FillContiguous {
        area: [i32; 4],
        colours: Vec<u32>,
        repeat: Option<u32>,
    },
    FillSolid {
        area: [i32; 4],
        colour: u32,
    },
    Clear(u32),
}

impl TOp {
    pub fn name(&self) -> &'static str {
        match self {
            TOp::DrawIter(_) => "draw_iter",
            TOp::FillContiguous { .. } => "fill_contiguous",
            TOp::FillSolid { .. } => "fill_solid",
            TOp::Clear(_) => "clear",
        }
    }
    /// The ordered writes this operation means on a target whose bounding box is `own_box`.
    pub fn writes(&self, own_box: &R) -> Vec<W> {
        match self {
            TOp::DrawIter(px) => px.iter().map(|(x, y, c)| (*x as i64, *y as i64, *c)).collect(),
            TOp::FillContiguous { area, colours, repeat } => {
                let r = R::xywh(area[0] as i64, area[1] as i64, area[2] as i64, area[3] as i64);
                let mut out = Vec::new();
                if r.is_empty() {
                    return out;
                }
                let mut i = 0usize;
                'o: for y in r.y0..r.y1 {
                    for x in r.x0..r.x1 {
                        let c = if i < colours.len() {
                            colours[i]
                        } else if let Some(c) = repeat {
                            *c
                        } else {
                            break 'o;
                        };
                        out.push((x, y, c));
                        i += 1;
                    }
                }
                out
            }
            TOp::FillSolid { area, colour } => {
                let r = R::xywh(area[0] as i64, area[1] as i64, area[2] as i64, area[3] as i64);
                fill_writes(&r, *colour)
            }
            TOp::Clear(c) => fill_writes(own_box, *c),
        }
    }
    pub fn to_json(&self) -> crate::json::J {
        use crate::json::J;
        match self {
            TOp::DrawIter(px) => J::obj().set(
                "draw_iter",
                J::Arr(px.iter().map(|(x, y, c)| J::ints(&[*x as i64, *y as i64, *c as i64])).collect()),
            ),
            TOp::FillContiguous { area, colours, repeat } => J::obj().set(
                "fill_contiguous",
                J::obj()
                    .set("area", J::ints(&area[..]))
                    .set("colours", J::Arr(colours.iter().map(|c| J::Int(*c as i64)).collect()))
                    .set("then_repeat", repeat.map(|c| J::Int(c as i64)).unwrap_or(J::Null)),
            ),
            TOp::FillSolid { area, colour } => J::obj().set(
                "fill_solid",
                J::obj().set("area", J::ints(&area[..])).set("colour", J::Int(*colour as i64)),
            ),
            TOp::Clear(c) => J::obj().set("clear", J::Int(*c as i64)),
        }
    }
    pub fn hash(&self, h: &mut crate::rng::Hash64) {
        match self {
            TOp::DrawIter(px) => {
                h.u32(1);
                for (x, y, c) in px {
                    h.i32(*x);
                    h.i32(*y);
                    h.u32(*c);
                }
            }
            TOp::FillContiguous { area, colours, repeat } => {
                h.u32(2);
                for a in area {
                    h.i32(*a);
                }
                for c in colours {
                    h.u32(*c);
                }
                h.u64(repeat.map(|c| c as u64 + 1).unwrap_or(0));
            }
            TOp::FillSolid { area, colour } => {
                h.u32(3);
                for a in area {
                    h.i32(*a);
                }
                h.u32(*colour);
            }
            TOp::Clear(c) => {
                h.u32(4);
                h.u32(*c);
            }
        }
    }
}

pub fn fill_writes(r: &R, c: u32) -> Vec<W> {
    let mut out = Vec::new();
    if r.is_empty() {
        return out;
    }
    for y in r.y0..r.y1 {
        for x in r.x0..r.x1 {
            out.push((x, y, c));
        }
    }
    out
}

/// Dense reference memory over a device box.
#[derive(Clone, Debug, PartialEq, Eq)]
pub struct RefMemory {
    pub rb: R,
    pub cells: Vec<Option<u32>>,
}

impl RefMemory {
    pub fn new(rb: R) -> Self {
        RefMemory {
            rb,
            cells: vec![None; rb.area() as usize],
        }
    }
    /// apply writes (device coordinates); returns number of cells whose value changed
    pub fn apply(&mut self, ws: &[W]) -> u64 {
        let mut changed = 0;
        for (x, y, c) in ws {
            if self.rb.contains(*x, *y) {
                let idx = ((*y - self.rb.y0) * self.rb.w() + (*x - self.rb.x0)) as usize;
                if self.cells[idx] != Some(*c) {
                    changed += 1;
                    self.cells[idx] = Some(*c);
                }
            }
        }
        changed
    }
    pub fn first_diff(&self, other: &[Option<u32>]) -> Option<(i64, i64, Option<u32>, Option<u32>)> {
        for (i, (a, b)) in self.cells.iter().zip(other.iter()).enumerate() {
            if a != b {
                let w = self.rb.w();
                return Some((self.rb.x0 + i as i64 % w, self.rb.y0 + i as i64 / w, *a, *b));
            }
        }
        None
    }
}
